"""Shared machinery of the `diff` workstream (C06, C07).

Abstract schemas are plain JSON:

  schema  = {"tables": [table, ...]}
  table   = {"name", "cols": [col...], "uqs": [{"name","cols"}], "ixs": [{"name","cols","unique"}],
             "fks": [{"name","cols","reftable","refcols","ondelete","onupdate"}]}
  col     = {"name", "ty": {"fam": <catalogue entry>, "args": [nat...]}, "nullable", "pk",
             "default": null | {"kind": "str"|"expr", "v": text}}

This module turns them into SQLAlchemy MetaData, creates the SQLite database, runs the real
`alembic.autogenerate.produce_migrations`, canonicalises `upgrade_ops.as_diffs()` to the op
vocabulary of `lean/Model/Diff`, renders the upgrade with `render_python_code` and executes
it through `Operations`.
"""
from __future__ import annotations

import re
import warnings

import sqlalchemy as sa
from sqlalchemy import types as T

from alembic.autogenerate import api as ag_api
from alembic.autogenerate import render_python_code
from alembic.migration import MigrationContext
from alembic.operations import Operations

# --- type catalogue -----------------------------------------------------------------------
# fam -> (constructor, allowed arities).  DDL text / reflected type of every entry is
# validated against the live SQLite inspector on every run (check_reflect_tables).
CATALOGUE = {
    "Integer": (lambda a: T.Integer(), [0]),
    "BigInteger": (lambda a: T.BigInteger(), [0]),
    "SmallInteger": (lambda a: T.SmallInteger(), [0]),
    "String": (lambda a: T.String(*a), [0, 1]),
    "Unicode": (lambda a: T.Unicode(*a), [0, 1]),
    "Text": (lambda a: T.Text(), [0]),
    "UnicodeText": (lambda a: T.UnicodeText(), [0]),
    "Boolean": (lambda a: T.Boolean(), [0]),
    "Float": (lambda a: T.Float(*a), [0, 1]),
    "Double": (lambda a: T.Double(*a), [0, 1]),
    "Numeric": (lambda a: T.Numeric(*a), [0, 1, 2]),
    "DateTime": (lambda a: T.DateTime(), [0]),
    "Date": (lambda a: T.Date(), [0]),
    "Time": (lambda a: T.Time(), [0]),
    "Interval": (lambda a: T.Interval(), [0]),
    "LargeBinary": (lambda a: T.LargeBinary(*a), [0, 1]),
    "JSON": (lambda a: T.JSON(), [0]),
    "Uuid": (lambda a: T.Uuid(), [0]),
    "Enum": (lambda a: T.Enum(*["x" * max(1, a[0])], name="e"), [1]),
    "VARCHAR": (lambda a: T.VARCHAR(*a), [0, 1]),
    "CHAR": (lambda a: T.CHAR(*a), [0, 1]),
    "NVARCHAR": (lambda a: T.NVARCHAR(*a), [0, 1]),
    "NCHAR": (lambda a: T.NCHAR(*a), [0, 1]),
    "TEXT": (lambda a: T.TEXT(), [0]),
    "NUMERIC": (lambda a: T.NUMERIC(*a), [0, 1, 2]),
    "DECIMAL": (lambda a: T.DECIMAL(*a), [0, 1, 2]),
    "FLOAT": (lambda a: T.FLOAT(*a), [0, 1]),
    "REAL": (lambda a: T.REAL(), [0]),
    "TIMESTAMP": (lambda a: T.TIMESTAMP(), [0]),
    "BLOB": (lambda a: T.BLOB(), [0]),
    # type names SQLAlchemy's SQLite dialect does not know: reflected through affinity rules
    "CLOB": (lambda a: T.CLOB(), [0]),
    "BINARY": (lambda a: T.BINARY(*a), [0, 1]),
    "VARBINARY": (lambda a: T.VARBINARY(*a), [0, 1]),
    "DOUBLE_PRECISION": (lambda a: T.DOUBLE_PRECISION(), [0]),
    "UUID": (lambda a: T.UUID(), [0]),
}
UNREFLECTABLE = ["CLOB", "BINARY", "VARBINARY", "DOUBLE_PRECISION", "UUID"]
REFLECTABLE = [f for f in CATALOGUE if f not in UNREFLECTABLE]


COLLATABLE = {"String": T.String, "Unicode": T.Unicode, "Text": T.Text, "UnicodeText": T.UnicodeText, "VARCHAR": T.VARCHAR}
COLLATIONS = ["NOCASE", "BINARY", "RTRIM"]  # SQLite's built-in collating sequences


def mk_type(ty):
    if ty.get("variant"):
        # base.with_variant(<type>, <dialect>): on SQLite the column has the variant's type iff the variant names sqlite
        v = ty["variant"]
        return mk_type({k: x for k, x in ty.items() if k != "variant"}).with_variant(mk_type(v["ty"]), v["dialect"])
    args = list(ty.get("args") or [])
    if ty.get("coll") and ty["fam"] in COLLATABLE:
        # collation= is rendered as COLLATE "<name>" after the type; SQLite never reflects it
        return COLLATABLE[ty["fam"]](*args[:1] if ty["fam"] not in ("Text", "UnicodeText") else (), collation=ty["coll"])
    return CATALOGUE[ty["fam"]][0](args)


def mk_default(d):
    if d is None:
        return None
    if d["kind"] == "str":
        return d["v"]
    if d["kind"] == "func":  # a SQL function element (ColumnElement): rendered as DEFAULT (<fn>) by SQLAlchemy
        return getattr(sa.func, d["v"])()
    return sa.text(d["v"])


def flag_index_name(table, col):
    """name SQLAlchemy gives the index of Column(index=True): ix_<column_0_label>, the label includes a schema"""
    return "ix_%s%s_%s" % (table["schema"] + "_" if table.get("schema") else "", table["name"], col)


def build_metadata(schema):
    md = sa.MetaData()
    # a table may spell out the dialect's default schema (schema="main" on SQLite): the same table as without it
    schema_of = {t["name"]: t.get("schema") for t in schema["tables"]}
    for t in schema["tables"]:
        cols = []
        # an index entry with "flag" is declared through the column-level flag Column(index=True[, unique=True]):
        # SQLAlchemy turns it into Index("ix_<table>_<column>", column, unique=...) (honoured only in that exact shape)
        flagged = {ix["cols"][0]: ix for ix in t.get("ixs", [])
                   if ix.get("flag") and len(ix["cols"]) == 1 and ix["name"] == flag_index_name(t, ix["cols"][0]) and not ix.get("desc")}
        for c in t["cols"]:
            kw = {}
            if c["name"] in flagged and not c.get("computed"):
                kw["index"] = True
                if flagged[c["name"]].get("unique"):
                    kw["unique"] = True
            elif c.get("uflag") and not c.get("computed"):
                kw["unique"] = True   # Column(unique=True): an UNNAMED unique constraint (SQLite reflects it with name None)
            if c.get("pk"):
                kw["primary_key"] = True
                if c.get("autoinc") is False:
                    kw["autoincrement"] = False  # explicit autoincrement=False on a primary key column
            if c.get("computed"):
                # a generated column (SQLite reflects it); nullable is always stated explicitly
                if c["computed"].get("nullable_unset"):
                    # nullable= not stated: the documented case in which a nullability difference is ignored
                    cols.append(sa.Column(c["name"], mk_type(c["ty"]), sa.Computed(c["computed"]["sql"], persisted=bool(c["computed"].get("persisted"))), **kw))
                else:
                    cols.append(sa.Column(c["name"], mk_type(c["ty"]), sa.Computed(c["computed"]["sql"], persisted=bool(c["computed"].get("persisted"))),
                                          nullable=c["nullable"], **kw))
                continue
            if c.get("comment") is not None:
                kw["comment"] = c["comment"]   # SQLite has no comments (dialect.supports_comments is False): never compared
            cols.append(
                sa.Column(c["name"], mk_type(c["ty"]), nullable=c["nullable"], server_default=mk_default(c.get("default")), **kw)
            )
        items = list(cols)
        for u in t.get("uqs", []):
            items.append(sa.UniqueConstraint(*u["cols"], name=u["name"]))
        for u in t.get("uuqs", []):
            items.append(sa.UniqueConstraint(*u["cols"]))   # unnamed: context only, never the object of a change
        for f in t.get("fks", []):
            items.append(
                sa.ForeignKeyConstraint(
                    f["cols"],
                    ["%s%s.%s" % (schema_of.get(f["reftable"]) and schema_of[f["reftable"]] + "." or "", f["reftable"], rc) for rc in f["refcols"]],
                    name=f["name"],
                    ondelete=f.get("ondelete"),
                    onupdate=f.get("onupdate"),
                    deferrable=f.get("deferrable"),
                    initially=f.get("initially"),
                )
            )
        tbl = sa.Table(t["name"], md, *items, comment=t.get("comment"), schema=t.get("schema"))
        for ix in t.get("ixs", []):
            if ix["cols"][0] in flagged and flagged[ix["cols"][0]] is ix and not any(c["name"] == ix["cols"][0] and c.get("computed") for c in t["cols"]):
                continue  # created by the column flag
            # "desc": first column descending - SQLite reflects the index with plain column names
            def _mod(col, how):
                if how == "desc_nulls_last":
                    return col.desc().nulls_last()
                if how == "asc_nulls_first":
                    return col.asc().nulls_first()
                return col.desc()

            exprs = [_mod(tbl.c[c], ix["desc"]) if (i == 0 and ix.get("desc")) else tbl.c[c] for i, c in enumerate(ix["cols"])]
            sa.Index(ix["name"], *exprs, unique=bool(ix.get("unique")))
        for fx in t.get("fixs", []):
            # expression-based index: SQLite does not reflect it, autogenerate skips it (with a warning)
            sa.Index(fx["name"], sa.func.lower(tbl.c[fx["col"]]))
    return md


def new_engine():
    return sa.create_engine("sqlite://")


def md_table_order(md):
    return [t.name for t in md.sorted_tables]


# --- canonicalisation of as_diffs() ----------------------------------------------------------


def _ty_text(ctx, ty):
    try:
        return ctx.impl.dialect.type_compiler.process(ty)
    except Exception as e:  # pragma: no cover
        return "?" + type(ty).__name__


def _dflt_text(sd):
    """server default object (metadata side) -> {"kind","v"} or None"""
    if sd is None or sd is False:
        return None
    arg = getattr(sd, "arg", None)
    if isinstance(arg, str):
        return {"kind": "str", "v": arg}
    if arg is not None:
        return {"kind": "expr", "v": str(getattr(arg, "text", arg))}
    return {"kind": "other", "v": repr(sd)}


def _fk_canon(fk, kind):
    from alembic.util import sqla_compat

    (ss, st, scols, ts, tt, tcols, onupdate, ondelete, deferrable, initially) = sqla_compat._fk_spec(fk)
    return {
        "k": kind,
        "t": st,
        "cols": list(scols),
        "reftable": tt,
        "refcols": list(tcols),
    }


def _ix_col(e):
    """column name of an index element; a sort modifier (col.desc()) is unwrapped - SQLite reflects plain names"""
    while not isinstance(getattr(e, "name", None), str) and hasattr(e, "element"):
        e = e.element
    return getattr(e, "name", None) or str(e)


def canon_diffs(mctx, diffs):
    """as_diffs() -> list of canonical op dicts (model vocabulary)."""
    out = []
    for d in diffs:
        if isinstance(d, list):
            # alter column: list of modify_* tuples on the same column
            for m in d:
                kind, schema, tname, cname = m[0], m[1], m[2], m[3]
                if kind == "modify_nullable":
                    out.append({"k": "modify_nullable", "t": tname, "c": cname, "to": bool(m[6])})
                elif kind == "modify_type":
                    out.append({"k": "modify_type", "t": tname, "c": cname, "to": _ty_text(mctx, m[6])})
                elif kind == "modify_default":
                    out.append({"k": "modify_default", "t": tname, "c": cname, "to": _dflt_text(m[6])})
                else:
                    out.append({"k": kind, "t": tname, "c": cname})
            continue
        kind = d[0]
        if kind == "add_table":
            out.append({"k": "add_table", "t": d[1].name, "cols": [c.name for c in d[1].columns]})
        elif kind == "remove_table":
            out.append({"k": "remove_table", "t": d[1].name})
        elif kind == "add_column":
            c = d[3]
            out.append({"k": "add_column", "t": d[2], "c": c.name})
        elif kind == "remove_column":
            out.append({"k": "remove_column", "t": d[2], "c": d[3].name})
        elif kind in ("add_index", "remove_index"):
            ix = d[1]
            out.append(
                {"k": kind, "t": ix.table.name, "n": ix.name, "cols": [_ix_col(e) for e in ix.expressions], "unique": bool(ix.unique)}
            )
        elif kind in ("add_constraint", "remove_constraint"):
            uq = d[1]
            out.append({"k": kind, "t": uq.table.name, "n": uq.name, "cols": [c.name for c in uq.columns]})
        elif kind in ("add_fk", "remove_fk"):
            out.append(_fk_canon(d[1], kind))
        else:
            tname = getattr(d[1], "name", None) if len(d) > 1 else None
            out.append({"k": kind, "t": tname if isinstance(tname, str) else "?", "raw": repr(d)[:200]})
    return out


def _sort_key(o):
    return (o.get("t") or "", o.get("c") or "", o.get("n") or "", ",".join(o.get("cols") or []), o.get("reftable") or "", ",".join(o.get("refcols") or []))


def normalise_order(ops):
    """The implementation iterates Python sets of strings/tuples in three places (dropped
    tables, dropped columns of a table, added/removed foreign keys of a table); the order
    there is hash order.  Sort exactly those runs (consecutive ops of the same kind, and for
    column/fk runs the same table); everything else is compared in sequence.  A dropped
    table's group = its remove_index ops followed by remove_table."""
    # group dropped tables
    out = []
    i = 0
    n = len(ops)
    while i < n:
        o = ops[i]
        k = o["k"]
        if k in ("remove_column", "add_fk", "remove_fk"):
            j = i
            while j < n and ops[j]["k"] == k and ops[j]["t"] == o["t"]:
                j += 1
            out.extend(sorted(ops[i:j], key=_sort_key))
            i = j
        else:
            out.append(o)
            i += 1
    # drop-table groups: [remove_index(t)..., remove_table(t)] runs
    groups = []
    res = []
    i = 0
    n = len(out)
    while i < n:
        j = i
        while j < n and out[j]["k"] == "remove_index":
            j += 1
        if j < n and out[j]["k"] == "remove_table" and all(x["t"] == out[j]["t"] for x in out[i:j]):
            groups.append(out[i : j + 1])
            i = j + 1
            continue
        if groups:
            groups.sort(key=lambda g: g[-1]["t"])
            for g in groups:
                res.extend(g)
            groups = []
        if j > i and not (j < n and out[j]["k"] == "remove_table"):
            res.extend(out[i:j])
            i = j
        else:
            res.append(out[i])
            i += 1
    if groups:
        groups.sort(key=lambda g: g[-1]["t"])
        for g in groups:
            res.extend(g)
    return res


# --- running the real code ------------------------------------------------------------------------


def cmp_option(setting, kind):
    """compare_type / compare_server_default setting -> the option value.  True / False, or
    {"callable": [[table, column, verdict], ...]}: a user callable that answers `verdict` (True / False) for the
    listed columns and None ("use the default comparison") for every other column."""
    if not isinstance(setting, dict):
        return setting
    table = {(t, c): v for t, c, v in setting["callable"]}
    if kind == "type":
        def compare_type(context, inspected_column, metadata_column, inspected_type, metadata_type):
            return table.get((metadata_column.table.name, metadata_column.name))

        return compare_type

    def compare_server_default(context, inspected_column, metadata_column, inspected_default, metadata_default, rendered_metadata_default):
        return table.get((metadata_column.table.name, metadata_column.name))

    return compare_server_default


def cfg_json(ct, cd):
    """the settings as the Lean driver takes them: on/off flags + the callables' verdicts as data"""
    return {"ct": bool(ct), "cd": bool(cd),
            "ctOver": ct["callable"] if isinstance(ct, dict) else [], "cdOver": cd["callable"] if isinstance(cd, dict) else []}


def configure(conn, md, compare_type=True, compare_server_default=True, batch=True):
    return MigrationContext.configure(
        conn,
        opts={
            "compare_type": cmp_option(compare_type, "type"),
            "compare_server_default": cmp_option(compare_server_default, "default"),
            "render_as_batch": batch,
            "target_metadata": md,
        },
    )


def produce_again(mctx, md):
    """a further autogenerate run through the SAME MigrationContext (what an API user calling compare_metadata /
    produce_migrations twice on one context does); returns the canonical ops"""
    with warnings.catch_warnings():
        warnings.simplefilter("ignore")
        script = ag_api.produce_migrations(mctx, md)
    return canon_diffs(mctx, script.upgrade_ops.as_diffs())


def produce(conn, md, compare_type=True, compare_server_default=True, batch=True):
    """returns (migration_context, MigrationScript, canonical ops in implementation order)"""
    mctx = configure(conn, md, compare_type, compare_server_default, batch)
    with warnings.catch_warnings():
        warnings.simplefilter("ignore")
        script = ag_api.produce_migrations(mctx, md)
    diffs = script.upgrade_ops.as_diffs()
    return mctx, script, canon_diffs(mctx, diffs)


def exec_upgrade(conn, mctx, script):
    """Render the upgrade as Python source (the text a revision file would contain) and run
    it against the live connection through Operations.  Returns the source."""
    autogen_ctx = ag_api.AutogenContext(mctx, autogenerate=False)
    src = render_python_code(
        script.upgrade_ops,
        render_as_batch=mctx.opts.get("render_as_batch", False),
        migration_context=mctx,
    )
    op = Operations(mctx)
    from sqlalchemy.dialects import sqlite as _sqlite

    glob = {"op": op, "sa": sa, "sqlalchemy": sa, "sqlite": _sqlite}
    body = "def upgrade():\n" + "\n".join("    " + l if l.strip() else l for l in src.splitlines()) + "\n"
    # render_python_code already indents the body by 4 spaces
    code = "def upgrade():\n" + (src if src.strip() else "    pass") + "\n"
    try:
        compile(code, "<upgrade>", "exec")
    except SyntaxError:
        code = body
    # which tables the batch blocks recreate (move-and-copy): observed from the statements sent to SQLite
    recreated = set()

    def _seen(conn_, cursor, statement, parameters, context, executemany):
        m = re.match(r'\s*CREATE TABLE "?_alembic_tmp_([^\s"(]+)', statement)
        if m:
            recreated.add(m.group(1))

    sa.event.listen(mctx.connection, "before_cursor_execute", _seen)
    try:
        with warnings.catch_warnings():
            warnings.simplefilter("ignore")
            exec(compile(code, "<upgrade>", "exec"), glob)
            glob["upgrade"]()
    finally:
        sa.event.remove(mctx.connection, "before_cursor_execute", _seen)
        exec_upgrade.recreated = sorted(recreated)
    return src


def fresh_db(engine, md):
    """connection on a brand new in-memory database created from md"""
    conn = engine.connect()
    md.create_all(conn)
    return conn


# --- reflect tables --------------------------------------------------------------------------------


def ddl_and_reflected(conn, ty, default=None):
    """Creates a one-column table and reports (ddl type text, reflected type recompiled,
    raw stored default, default as the autogenerate reflection sees it)."""
    md = sa.MetaData()
    t = sa.Table("_probe", md, sa.Column("c", ty, server_default=default))
    md.create_all(conn)
    try:
        from alembic.ddl.sqlite import SQLiteImpl

        insp = sa.inspect(conn)
        col = insp.get_columns("_probe")[0]
        tc = conn.dialect.type_compiler
        return tc.process(ty), tc.process(col["type"]), col["default"]
    finally:
        md.drop_all(conn)


def tokenise_ddl(text):
    """'NUMERIC(10, 2)' -> ("NUMERIC", [10, 2]);  'DOUBLE PRECISION' -> ("DOUBLE PRECISION", [])"""
    m = re.match(r"^([A-Za-z_ ]+?)\s*(?:\(([^)]*)\))?$", text)
    if not m:
        return text, []
    args = [int(a.strip()) for a in m.group(2).split(",")] if m.group(2) else []
    return m.group(1), args
