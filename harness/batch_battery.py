"""Fixed battery of `copy_from` / option cases of the batch workstream that the abstract-table generator cannot
express (the copy_from Table is a hand-built SQLAlchemy object): type-bound Boolean/Enum CHECKs, column-level named
constraints, Column(index=True) / Column(unique=True), table kwargs (sqlite_autoincrement), naming_convention,
Computed(persisted=True) columns.  These cases are **oracle-only**: the real batch runs on a real SQLite file and the
Lean checkers (check10 / check11) judge the before/after observation; the Lean *model* does not mirror type-bound and
column-level constraint objects, so there is no statement-by-statement correspondence for them.
"""
from __future__ import annotations

import os
import tempfile

import sqlalchemy as sa
from sqlalchemy import event

from . import batch_corr as bc
from . import batch_impl as bi

NC = {"uq": "uq_%(table_name)s_%(column_0_name)s", "ck": "ck_%(table_name)s_%(constraint_name)s", "ix": "ix_%(column_0_label)s"}


def _col(n, ty="INTEGER", **kw):
    d = {"name": n, "ty": ty, "aff": bi.aff_of_token(ty), "nullable": True, "default": None, "dval": None, "pk": False}
    d.update(kw)
    return d


ADD = [{"op": "add_column", "col": _col("n1"), "before": None, "after": None}]
BOOL = lambda: sa.Boolean(create_constraint=True, name="ck_flag")          # noqa: E731
ENUM = lambda: sa.Enum("a", "b", name="ck_status", create_constraint=True)  # noqa: E731


def _alter(name, **kw):
    o = {"op": "alter_column", "name": name, "new_name": None, "type": None, "nullable": None, "default": None}
    o.update(kw)
    return o


def _t(*cols, **kw):
    return lambda m: sa.Table("t", m, sa.Column("id", sa.Integer, primary_key=True), *[c() for c in cols], **kw)


ITEMS = {
    # name: (table builder, rows, ops, kwargs)
    "typebound_bool_add": (_t(lambda: sa.Column("flag", BOOL())), [{"id": 1, "flag": True}, {"id": 2, "flag": None}], ADD, {}),
    "typebound_bool_nullable": (_t(lambda: sa.Column("flag", BOOL())), [{"id": 1, "flag": True}, {"id": 2, "flag": False}],
                                [_alter("flag", nullable=False, comment="a comment", autoincrement=False, existing_type_const="ck_flag", existing_type_kind="bool")], {}),
    "typebound_bool_rename": (_t(lambda: sa.Column("flag", BOOL())), [{"id": 1, "flag": True}],
                              [_alter("flag", new_name="flag2", existing_type_const="ck_flag", existing_type_kind="bool")], {}),
    "typebound_bool_retype": (_t(lambda: sa.Column("flag", BOOL())), [{"id": 1, "flag": True}],
                              [_alter("flag", type={"ty": "INTEGER", "aff": "Integer"}, existing_type_const="ck_flag", existing_type_kind="bool")], {}),
    "typebound_enum_default": (_t(lambda: sa.Column("status", ENUM())), [{"id": 1, "status": "a"}, {"id": 2, "status": None}],
                               [_alter("status", default={"set": "'a'"}, existing_type_const="ck_status", existing_type_kind="enum")], {}),
    "col_named_check_add": (_t(lambda: sa.Column("x", sa.Integer, sa.CheckConstraint("x > 0", name="ck_x"))), [{"id": 1, "x": 5}], ADD, {}),
    "col_named_check_drop": (_t(lambda: sa.Column("x", sa.Integer, sa.CheckConstraint("x > 0", name="ck_x"))), [{"id": 1, "x": 5}],
                             [{"op": "drop_constraint", "name": "ck_x", "type": "check"}], {}),
    "col_unnamed_check_add": (_t(lambda: sa.Column("x", sa.Integer, sa.CheckConstraint("x > 0"))), [{"id": 1, "x": 5}], ADD, {}),
    "col_two_named_checks_drop_one": (_t(lambda: sa.Column("x", sa.Integer, sa.CheckConstraint("x > 0", name="ck_x"), sa.CheckConstraint("x < 100", name="ck_x2"))),
                                      [{"id": 1, "x": 5}], [{"op": "drop_constraint", "name": "ck_x2", "type": "check"}], {}),
    "copy_from_index_true": (_t(lambda: sa.Column("x", sa.Integer, index=True)), [{"id": 1, "x": 5}, {"id": 2, "x": 5}], ADD, {}),
    "copy_from_unique_true": (_t(lambda: sa.Column("x", sa.Integer, unique=True)), [{"id": 1, "x": 5}, {"id": 2, "x": None}], ADD, {}),
    "sqlite_autoincrement": (_t(lambda: sa.Column("x", sa.Integer), sqlite_autoincrement=True), [{"id": 1, "x": 5}], ADD, {"keep_sql": "AUTOINCREMENT"}),
    "sqlite_autoincrement_alter_pk": (_t(lambda: sa.Column("x", sa.Integer), sqlite_autoincrement=True), [{"id": 1, "x": 5}],
                                      [_alter("id", nullable=False, comment="pk"), _alter("x", nullable=True)], {"keep_sql": "AUTOINCREMENT"}),
    "naming_convention_drop": (_t(lambda: sa.Column("x", sa.Integer), lambda: sa.UniqueConstraint("x")), [{"id": 1, "x": 5}],
                               [{"op": "drop_constraint", "name": "uq_t_x", "type": "unique"}], {"nc": True}),
    "naming_convention_reflected_drop": (_t(lambda: sa.Column("x", sa.Integer), lambda: sa.UniqueConstraint("x")), [{"id": 1, "x": 5}],
                                         [{"op": "drop_constraint", "name": "uq_t_x", "type": "unique"}], {"nc": True, "reflected": True}),
    "naming_convention_unnamed_add": (_t(lambda: sa.Column("x", sa.Integer)), [{"id": 1, "x": 5}],
                                      [{"op": "add_unique", "name": None, "cols": ["x"]}], {"nc": True, "rejected": True}),
    "computed_persisted_auto": (_t(lambda: sa.Column("x", sa.Integer)), [{"id": 1, "x": 5}, {"id": 2, "x": None}],
                                [{"op": "add_column", "col": _col("g", computed="id + 1", persisted=True, computed_mentions=["id"]), "before": None, "after": None}],
                                {"recreate": "auto", "keep_after_sql": "GENERATED ALWAYS"}),
    "two_fk_one_referent": (_t(lambda: sa.Column("x", sa.Integer, sa.ForeignKey("parent.id")), lambda: sa.Column("y", sa.Integer, sa.ForeignKey("parent.code"))),
                            [{"id": 1, "x": 1, "y": 10}], ADD, {}),
}


class _Db:
    def __init__(self, build, rows, iso, nc):
        self.dir = bi.scratch_dir("verif_battery_")
        self.path = os.path.join(self.dir, "x.db")
        self.engine = sa.create_engine("sqlite:///" + self.path, **({"isolation_level": "AUTOCOMMIT"} if iso == "autocommit" else {}))
        self.iso = iso
        self.table = {"name": "t"}
        m = sa.MetaData(naming_convention=NC) if nc else sa.MetaData()
        sa.Table("parent", m, sa.Column("id", sa.Integer, primary_key=True), sa.Column("code", sa.Integer, unique=True))
        t = build(m)
        with self.engine.connect() as conn:
            m.create_all(conn)
            conn.execute(m.tables["parent"].insert(), [{"id": 1, "code": 10}, {"id": 2, "code": 20}])
            if rows:
                conn.execute(t.insert(), rows)
            conn.commit()

    def sql(self):
        with self.engine.connect() as conn:
            return " ".join(r[0] for r in conn.exec_driver_sql(
                "SELECT sql FROM sqlite_master WHERE tbl_name='t' AND sql IS NOT NULL ORDER BY name").fetchall())

    def close(self):
        bi.Db.close(self)


def run_item(name, fault=None, scope="none", iso="default", fkind="exception"):
    build, rows, ops, kw = ITEMS[name]
    db = _Db(build, rows, iso, kw.get("nc"))
    try:
        m2 = sa.MetaData(naming_convention=NC) if kw.get("nc") else sa.MetaData()
        sa.Table("parent", m2, sa.Column("id", sa.Integer, primary_key=True), sa.Column("code", sa.Integer, unique=True))
        copy_from = False if kw.get("reflected") else build(m2)
        sql_before = db.sql()
        r = bi.run_batch(db, ops, recreate=kw.get("recreate", "always"), copy_from=copy_from, fault=fault, scope=scope, fkind=fkind,
                         universe=("n1", "flag2", "g"), batch_kw={"naming_convention": NC} if kw.get("nc") else None)
        r["sql_before"], r["sql_after"] = sql_before, db.sql()
        return r
    finally:
        db.close()


def case_of(name, fault=None, scope="none", iso="default", fkind="exception"):
    build, rows, ops, kw = ITEMS[name]
    c = bc.new_case({"name": "t", "cols": [], "rows": []}, ops, kw.get("recreate", "always"), not kw.get("reflected"), fault, scope, iso, None, fkind)
    c["battery"] = name
    return c


def python_checks(name, r):
    """attributes the inspector does not show, read from sqlite_master text"""
    kw = ITEMS[name][3]
    out = []
    if r["outcome"] == "ok":
        if kw.get("keep_sql") and kw["keep_sql"] in r["sql_before"] and kw["keep_sql"] not in r["sql_after"]:
            out.append("schema: %s lost from the table definition" % kw["keep_sql"])
        if kw.get("keep_after_sql") and kw["keep_after_sql"] not in r["sql_after"]:
            out.append("schema: requested %s column is not in the table definition" % kw["keep_after_sql"])
    if kw.get("rejected"):
        if r["outcome"] == "ok":
            out.append("schema: a constraint without a name was accepted")
        elif bc.canon_db(r["fresh"]) != bc.canon_db(r["before"]):
            out.append("early: a rejected batch changed the database")
    return out
