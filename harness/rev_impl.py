"""Adapters that run alembic's real revision machinery and canonicalise what it does."""
from __future__ import annotations

import signal
import warnings
from contextlib import contextmanager

from sqlalchemy import create_engine, text

from alembic.runtime.migration import HeadMaintainer, MigrationContext, RevisionStep, StampStep
from alembic.script import revision as R
from alembic.util import CommandError

from . import revfake


class Hang(Exception):
    pass


@contextmanager
def alarm(seconds):
    def h(signum, frame):
        raise Hang()

    old = signal.signal(signal.SIGALRM, h)
    signal.setitimer(signal.ITIMER_REAL, seconds)
    try:
        yield
    finally:
        signal.setitimer(signal.ITIMER_REAL, 0)
        signal.signal(signal.SIGALRM, old)


def err_name(e):
    if isinstance(e, Hang):
        return "hang"
    if isinstance(e, CommandError) and e.__cause__ is not None and not isinstance(e.__cause__, CommandError):
        return err_name(e.__cause__)
    if isinstance(e, IndexError):
        return "keyError"
    return revfake.exc_class(e)


LOAD_HANGS = [0]


def load(hist):
    """returns (sd, info) or (None, {'err': name}); a load that does not finish within the alarm
    is reported as {'err': 'hang'} (after three of them the alarm is shortened: each costs its full length)"""
    try:
        with warnings.catch_warnings():
            warnings.simplefilter("ignore")
            with alarm(3.0 if LOAD_HANGS[0] < 3 else 0.5):
                sd = revfake.make_sd(hist)
                m = sd.revision_map
                m._revision_map
    except Hang:
        LOAD_HANGS[0] += 1
        return None, {"err": "hang"}
    except Exception as e:  # noqa
        info = {"err": err_name(e)}
        later = refused_then_asked_again(locals().get("sd"))
        if later:
            info["later"] = later
        return None, info
    revs = [m._revision_map[r["id"]] for r in hist]
    info = {
        "heads": sorted(m.heads),
        "realHeads": sorted(m._real_heads),
        "bases": sorted(m.bases),
        "realBases": sorted(m._real_bases),
        "labels": {r.revision: sorted(r.branch_labels) for r in revs},
        "ndeps": {r.revision: sorted(r._normalized_resolved_dependencies) for r in revs},
        "rdeps": {r.revision: list(r._resolved_dependencies) for r in revs},
        "nextrev": {r.revision: sorted(r.nextrev) for r in revs},
        "allNextrev": {r.revision: sorted(r._all_nextrev) for r in revs},
    }
    norm_order = [
        {"id": r.revision, "order": list(r._normalized_resolved_dependencies)}
        for r in revs
        if len(r._normalized_resolved_dependencies) > 1
    ]
    return sd, {"ok": info, "normOrder": norm_order}


def refused_then_asked_again(sd):
    """a history whose load was refused stays refused: the same object asked again for its heads and bases
    (attributes and the ScriptDirectory accessors that read them) must refuse again.  Returns the accessors
    that answered instead, with what they answered."""
    if sd is None:
        return []
    m = sd.revision_map
    out = []
    probes = [
        ("RevisionMap.heads", lambda: m.heads),
        ("RevisionMap.bases", lambda: m.bases),
        ("RevisionMap._real_heads", lambda: m._real_heads),
        ("RevisionMap._real_bases", lambda: m._real_bases),
        ("ScriptDirectory.get_heads()", sd.get_heads),
        ("ScriptDirectory.get_bases()", sd.get_bases),
        ("ScriptDirectory.get_current_head()", sd.get_current_head),
        ("RevisionMap.heads (again)", lambda: m.heads),
    ]
    with warnings.catch_warnings():
        warnings.simplefilter("ignore")
        for name, fn in probes:
            try:
                with alarm(0.5):
                    v = fn()
            except Exception:  # noqa
                continue
            out.append([name, sorted(v) if isinstance(v, (tuple, list, set, frozenset)) else str(v)])
    return out


MEMO_READS = ["heads", "revisionMap", "bases", "realHeads", "realBases", "heads", "revisionMap"]


def memo_reads(hist, reads=MEMO_READS):
    """the same reads on ONE fresh RevisionMap object, in order: [{'ok': sorted list} | {'err': name}]"""
    out = []
    with warnings.catch_warnings():
        warnings.simplefilter("ignore")
        try:
            sd = revfake.make_sd(hist)
        except Exception as e:  # noqa
            return [{"err": err_name(e)} for _ in reads]
        m = sd.revision_map
        fns = {
            "heads": lambda: m.heads,
            "bases": lambda: m.bases,
            "realHeads": lambda: m._real_heads,
            "realBases": lambda: m._real_bases,
            "revisionMap": lambda: [k for k in m._revision_map if isinstance(k, str) and m._revision_map[k] is not None and m._revision_map[k].revision == k],
        }
        for r in reads:
            try:
                with alarm(0.5):
                    v = fns[r]()
                out.append({"ok": sorted(v)})
            except Exception as e:  # noqa
                out.append({"err": err_name(e)})
    return out


def canon_model_load(ans):
    if "ok" not in ans:
        return ans
    o = ans["ok"]
    return {
        "ok": {
            "heads": sorted(o["heads"]),
            "realHeads": sorted(o["realHeads"]),
            "bases": sorted(o["bases"]),
            "realBases": sorted(o["realBases"]),
            "labels": {k: sorted(v) for k, v in o["labels"].items()},
            "ndeps": {k: sorted(v) for k, v in o["ndeps"].items()},
            "rdeps": o["rdeps"],
            "nextrev": {k: sorted(v) for k, v in o["nextrev"].items()},
            "allNextrev": {k: sorted(v) for k, v in o["allNextrev"].items()},
        }
    }


class VersionDb:
    """a real SQLite alembic_version table and a real HeadMaintainer"""

    def __init__(self, **opts):
        self.engine = create_engine("sqlite://")
        self.conn = self.engine.connect()
        self.ctx = MigrationContext.configure(self.conn, opts=opts)
        self.ctx._ensure_version_table()
        self.table = self.ctx._version

    def reset(self, rows):
        self.conn.execute(self.table.delete())
        for r in rows:
            self.conn.execute(self.table.insert().values(version_num=r))

    def rows(self):
        return [r[0] for r in self.conn.execute(self.table.select())]

    def close(self):
        self.conn.close()
        self.engine.dispose()


def step_json(st):
    if isinstance(st, RevisionStep):
        return {"rev": st.revision.revision, "up": bool(st.is_upgrade)}
    return {"from": list(st.from_), "to": list(st.to_), "up": bool(st.is_upgrade), "branchMove": bool(st.branch_move)}


def plan(sd, rows, cmd, target, timeout=5.0):
    """real _upgrade_revs/_downgrade_revs/_stamp_revs -> list of steps or {'err':..}"""
    try:
        with warnings.catch_warnings():
            warnings.simplefilter("ignore")
            with alarm(timeout):
                if cmd == "upgrade":
                    return sd._upgrade_revs(target, tuple(rows))
                elif cmd == "downgrade":
                    return sd._downgrade_revs(target, tuple(rows))
                else:
                    return sd._stamp_revs(tuple(target), tuple(rows))
    except Exception as e:  # noqa
        return {"err": err_name(e)}


def run_steps(vdb, rows, steps):
    """real HeadMaintainer on the real table; returns (trace, stepErr)"""
    vdb.reset(rows)
    hm = HeadMaintainer(vdb.ctx, tuple(rows))
    stmts = []
    oi, od, ou = hm._insert_version, hm._delete_version, hm._update_version

    def ins(v):
        stmts.append(["ins", str(v)])
        return oi(v)

    def dele(v):
        stmts.append(["del", str(v)])
        return od(v)

    def upd(a, b):
        stmts.append(["upd", str(a), str(b)])
        return ou(a, b)

    hm._insert_version, hm._delete_version, hm._update_version = ins, dele, upd
    trace = []
    for st in steps:
        del stmts[:]
        try:
            hm.update_to_step(st)
        except Exception as e:  # noqa
            return trace, err_name(e)
        db_rows = vdb.rows()
        trace.append({"rows": db_rows, "stmts": [list(s) for s in stmts], "heads": sorted(str(h) for h in hm.heads)})
    return trace, None


def command(sd, vdb, rows, cmd, target):
    p = plan(sd, rows, cmd, target)
    if isinstance(p, dict):
        return p
    trace, err = run_steps(vdb, rows, p)
    out = {"steps": [step_json(s) for s in p], "trace": trace}
    if err:
        out["stepErr"] = err
    return out
