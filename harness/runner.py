"""Entry point:  ./check Cxx [--tier quick|thorough] [--replay path]

Exit 0: property held on everything explored (known findings are printed as KNOWN-FINDING lines).
Exit 1: `VIOLATION property=Cxx replay=<path>` printed.
Exit 2: infrastructure problem (timeout, driver missing, harness crash) -- never a violation.
"""
from __future__ import annotations

import argparse
import importlib
import json
import os
import sys
import time
import traceback

from . import core
from .core import Ctx, log


def _raised_inside_implementation(exc):
    """{'impl_frame','harness_frame'} when the innermost frames of the traceback belong to the
    alembic package (called from harness code), else None (= a bug of the harness itself)"""
    try:
        import alembic

        impl_root = os.path.dirname(os.path.abspath(alembic.__file__)) + os.sep
    except Exception:
        return None
    harness_root = os.path.join(core.VERIF, "harness") + os.sep
    frames = traceback.extract_tb(exc.__traceback__)
    last_harness = max([i for i, f in enumerate(frames) if os.path.abspath(f.filename).startswith(harness_root)], default=None)
    if last_harness is None:
        return None
    impl_after = [f for f in frames[last_harness + 1:] if os.path.abspath(f.filename).startswith(impl_root)]
    if not impl_after:
        return None
    hf, imf = frames[last_harness], impl_after[-1]
    return {"harness_frame": "%s:%d %s" % (os.path.relpath(hf.filename, core.VERIF), hf.lineno, hf.name),
            "impl_frame": "%s:%d %s" % (imf.filename[len(os.path.dirname(impl_root.rstrip(os.sep))) + 1:], imf.lineno, imf.name)}


def main(argv=None):
    ap = argparse.ArgumentParser()
    ap.add_argument("prop")
    ap.add_argument("--tier", default=os.environ.get("VERIF_TIER") or "quick", choices=["quick", "thorough"])
    ap.add_argument("--replay", default=None)
    ap.add_argument("--no-build", action="store_true")
    a = ap.parse_args(argv)
    prop = a.prop.upper()
    try:
        seed = int(os.environ.get("VERIF_SEED", "0") or 0)
    except ValueError:
        seed = 0
    os.chdir(core.VERIF)
    sys.path.insert(0, core.VERIF)
    t0 = time.time()
    try:
        mod = importlib.import_module("harness.props.%s" % prop.lower())
    except Exception:
        traceback.print_exc()
        return 2
    exe = getattr(mod, "DRIVER")
    ctx = Ctx(prop, a.tier, seed, exe)

    # 1. proofs: build + audit ------------------------------------------------------
    theorems = list(mod.THEOREMS)
    broken = {}
    build_ok, build_out = (True, "")
    if not a.no_build:
        build_ok, build_out = core.lake_build(["Props.%s" % prop, exe])
    if not build_ok:
        log(build_out[-3000:])
        # is it only the proof side?  try to get a driver anyway
        drv_ok, _ = core.lake_build([exe])
        for t in theorems:
            broken[t] = "lake build Props.%s failed" % prop
        if not drv_ok and not os.path.exists(ctx.drv.path):
            print("infrastructure: driver does not build", flush=True)
            return 2
        audit_res, banned = ({}, [])
    else:
        audit_res, banned = core.audit(prop, theorems)
        for t, r in audit_res.items():
            if not r["ok"]:
                broken[t] = r["why"]
        if a.tier == "thorough" and not a.replay:
            ok_lc, out_lc = core.leanchecker("Props.%s" % prop)
            ctx.note("leanchecker Props.%s: %s" % (prop, "accepted" if ok_lc else ("not available" if ok_lc is None else "REJECTED")))
            if ok_lc is False:
                for t in theorems:
                    broken.setdefault(t, "leanchecker rejected the compiled module: %s" % out_lc[-300:])

    if a.replay:
        case = json.load(open(a.replay))
        out = mod.replay(ctx, case)
        print(json.dumps(out, indent=1, default=str))
        return 0

    # 2. correspondence + spec on implementation output ------------------------------
    try:
        mod.run(ctx)
    except Exception as e:
        traceback.print_exc()
        where = _raised_inside_implementation(e)
        if where is None:
            changed = core.changed_anchor_files("_package")
            if not changed:
                print("infrastructure: harness crashed", flush=True)
                return 2
            # the harness tripped over what the implementation handed back, and the implementation is
            # not the code the harness was written against
            fr = traceback.extract_tb(e.__traceback__)[-1]
            where = {"harness_frame": "%s:%d %s" % (os.path.relpath(fr.filename, core.VERIF), fr.lineno, fr.name),
                     "impl_frame": "(result of the implementation not of the expected shape; changed modules: %s)" % ", ".join(changed[:6])}
        # the implementation raised something the harness does not expect from it (on the unchanged
        # tree this never happens): the correspondence is broken at that call, not the machinery
        ctx.disagree("implementation-raised", {"call_site": where["harness_frame"]},
                     {"raised": type(e).__name__, "message": str(e)[:300], "in": where["impl_frame"]}, None,
                     note="exploration stopped at the first unexpected exception from the implementation")

    findings = core.load_findings(prop)
    open_findings = [f for f in findings if f.get("status", "open") == "open"]
    classify = getattr(mod, "classify", lambda failure: None)

    def unlisted(failures):
        out = []
        ids = {f["id"] for f in open_findings}
        for fl in failures:
            fid = classify(fl)
            fl["finding"] = fid
            if fid is None or fid not in ids:
                out.append(fl)
        return out

    new_failures = unlisted(ctx.failures)

    # 3. broken proof obligation or correspondence => search for a failing input ----------
    searched = False
    if not new_failures and (broken or ctx.disagreements) and hasattr(mod, "search"):
        searched = True
        try:
            mod.search(ctx)
        except Exception:
            traceback.print_exc()
        new_failures = unlisted(ctx.failures)

    # 3b. the anchored source is not the source the model was written against: explore deeper
    #     even though the ordinary pass found nothing (never a violation by itself)
    # (the property's own anchored files first; any other module of the package counts as well - helpers such as
    #  util/sqla_compat.py or a dialect module decide behaviour the anchored code relies on)
    changed_src = core.changed_anchor_files(prop) or core.changed_anchor_files("_package")
    escalated = False
    if changed_src and not new_failures and not searched and hasattr(mod, "search") and not os.environ.get("VERIF_NO_ESCALATE"):
        escalated = True
        log("[%s] anchored source differs from the fingerprinted tree (%s): running the deeper search as well" % (prop, ", ".join(changed_src)))
        try:
            mod.search(ctx)
        except Exception:
            traceback.print_exc()
        new_failures = unlisted(ctx.failures)

    # 4. known findings: witnesses replayed on the implementation on every run -----------
    known_lines = []
    for f in open_findings:
        try:
            what = mod.check_witness(ctx, f)
        except Exception as e:  # the witness must stay executable
            what = None
            ctx.note("witness of %s could not be replayed: %r" % (f["id"], e))
        if what:
            known_lines.append("KNOWN-FINDING: property=%s %s [%s] %s" % (prop, f["id"], f.get("signature", ""), f["what_fails"]))
    for l in known_lines:
        print(l, flush=True)

    # 5. verdict -------------------------------------------------------------------------
    violation_lines = []
    if new_failures:
        # one VIOLATION line per distinct failure kind (first = smallest input)
        seen = set()
        for fl in sorted(new_failures, key=lambda x: len(json.dumps(x["input"], default=str))):
            key = fl["what"].split(":")[0]
            if key in seen:
                continue
            seen.add(key)
            rel = core.write_replay(prop, {"property": prop, "kind": "failing-input", "seed": seed, "tier": a.tier, **fl})
            violation_lines.append("VIOLATION property=%s replay=%s" % (prop, rel))
            if len(violation_lines) >= 5:
                break
    elif broken or ctx.disagreements:
        payload = {
            "property": prop,
            "kind": "unproved",
            "seed": seed,
            "tier": a.tier,
            "broken_theorems": broken,
            "broken_correspondence": ctx.disagreements[:10],
            "n_disagreements": len(ctx.disagreements),
            "searched": searched,
            "explanation": "the proof obligations or the model/implementation correspondence no longer check; "
            "no input on which the property itself fails was found",
        }
        rel = core.write_replay(prop, payload)
        violation_lines.append("VIOLATION property=%s replay=%s no-failing-input-found" % (prop, rel))
    for l in violation_lines:
        print(l, flush=True)

    # 6. evidence ------------------------------------------------------------------------
    partial = getattr(mod, "PARTIAL", {})
    ev = {
        "property_id": prop,
        "tier": a.tier,
        "seed": seed,
        "level": "proof",
        "wall_s": round(time.time() - t0, 2),
        "violations": len(violation_lines),
        "coverage": {
            "obligations": len(theorems),
            "discharged": len([t for t in theorems if t not in broken]),
            "checker_cmd": "cd lean && lake build Props.%s && lake env lean .audit/Audit_%s.lean  (#print axioms on every listed theorem)" % (prop, prop),
            "trusted_base": core.GENERIC_TRUSTED + list(getattr(mod, "TRUSTED", [])),
            "theorems": {t: (audit_res.get(t) or {"ok": False, "why": broken.get(t, "")}) for t in theorems},
            "partial_theorems": partial,
            "broken": broken,
            "evaluations": ctx.evaluations,
            "distinct_nontrivial": len(ctx._nontrivial),
            "traces_validated_against_impl": ctx.traces,
            "rule": getattr(mod, "RULE", ""),
            "samples": ctx.samples,
            "exhaustive": bool(ctx.exhaustive),
            "input_distribution": {k: dict(v.most_common(40)) for k, v in ctx.hists.items()},
            "correspondence_disagreements": len(ctx.disagreements),
            "spec_failures_on_impl": len(ctx.failures),
            "spec_failures_matching_known_findings": len(ctx.failures) - len(new_failures),
            "known_findings_reproduced": known_lines,
            "anchored_source_changed": changed_src,
            "escalated_search": escalated,
            "driver_ops": ctx.drv.calls,
            "notes": ctx.notes,
            **ctx.extra,
        },
        "assumptions": list(getattr(mod, "ASSUMPTIONS", [])),
    }
    core.write_evidence(prop, ev)
    log("[%s] tier=%s seed=%s evaluations=%d nontrivial=%d traces=%d disagreements=%d failures=%d (new %d) theorems %d/%d wall=%.1fs"
        % (prop, a.tier, seed, ctx.evaluations, len(ctx._nontrivial), ctx.traces, len(ctx.disagreements), len(ctx.failures),
           len(new_failures), len(theorems) - len(broken), len(theorems), time.time() - t0))
    return 1 if violation_lines else 0


if __name__ == "__main__":
    sys.exit(main())
