"""Shared correspondence runner of the revision engine (C01, C02, C03, C05, C15, C16).

One *case* = (history, rows, command).  The implementation side runs the real
ScriptDirectory / RevisionMap / HeadMaintainer (harness/rev_impl.py); the model side is
`drv_rev`.  Each property module says which part of the answers it compares and which Lean
spec checker it evaluates on the implementation's output.
"""
from __future__ import annotations

import itertools
import json

from . import gen_graph, rev_impl


def canon_stmts(stmts):
    removed = sorted([s[1] for s in stmts if s[0] in ("del", "upd")])
    added = sorted([s[1] for s in stmts if s[0] == "ins"] + [s[2] for s in stmts if s[0] == "upd"])
    return {"removed": removed, "added": added, "n": len(stmts)}


def canon_cmd(ans):
    """canonical form of a rev.cmd answer from either side"""
    if "err" in ans or "loadErr" in ans:
        return {k: ans[k] for k in ("err", "loadErr") if k in ans}
    out = {"steps": ans["steps"], "trace": [{"rows": sorted(t["rows"]), "stmts": canon_stmts(t["stmts"])} for t in ans["trace"]]}
    if "stepErr" in ans:
        out["stepErr"] = ans["stepErr"]
    return out


def targets_for(rng, hist, info, cmd, rows):
    ids = [r["id"] for r in hist]
    labels = [l for r in hist for l in r.get("labels", [])]
    if cmd == "upgrade":
        pool = ["heads", "head", "base"] + ids + [i + "+1" for i in ids[:3]] + ["+1", "+2", "+3"]
        for l in labels:
            pool += [l + "@head", l + "@heads", l + "@+1", l + "@" + rng.choice(ids)]
        pool += [i[: max(1, len(i) - 1)] for i in ids if len(i) > 4][:3]
        pool += [rng.choice(ids) + "-1", rng.choice(ids) + "+2", rng.choice(ids) + "+0"]
    elif cmd == "downgrade":
        pool = ["base", "-1", "-2", "-3"] + ids + [i + "-1" for i in ids[:3]]
        for l in labels:
            pool += [l + "@base", l + "@-1", l + "@" + rng.choice(ids), l + "@" + rng.choice(ids) + "-1"]
        pool += [i[: max(1, len(i) - 1)] for i in ids if len(i) > 4][:3]
        pool += [rng.choice(ids) + "+1", rng.choice(ids) + "-2"]
    else:
        pool = [["heads"], ["base"]] + [[i] for i in ids]
        if len(ids) >= 2:
            pool += [rng.sample(ids, 2) for _ in range(3)]
        if len(ids) >= 3:
            pool += [rng.sample(ids, 3)]
        for l in labels:
            pool += [[l + "@head"], [l + "@heads"]]
    return pool


class RevRunner:
    def __init__(self, ctx):
        self.ctx = ctx
        self.vdb = rev_impl.VersionDb()
        self.pending = []  # (case, impl)
        self.results = []

    def close(self):
        self.vdb.close()

    def case(self, hist, sd, norm_order, rows, cmd, target):
        """runs the implementation now, queues the model"""
        impl = rev_impl.command(sd, self.vdb, rows, cmd, target)
        c = {"revs": hist, "normOrder": norm_order, "rows": list(rows), "cmd": cmd}
        if cmd == "stamp":
            c["targets"] = list(target)
        else:
            c["target"] = target
        self.pending.append((c, impl))
        return impl

    def flush(self, on_result):
        if not self.pending:
            return
        ans = self.ctx.drv.ask([{"op": "rev.cmd", **c} for c, _ in self.pending])
        for (c, impl), model in zip(self.pending, ans):
            on_result(c, impl, model)
        self.pending = []


def final_rows(impl, rows):
    if "trace" in impl and impl["trace"]:
        return list(impl["trace"][-1]["rows"])
    return list(rows)


def random_histories(ctx, rng, n_graphs, size_lo, size_hi, labels=True, collide=False):
    for _ in range(n_graphs):
        n = rng.randint(size_lo, size_hi)
        hist = gen_graph.gen_history(rng, n, labels=labels and rng.random() < 0.6, deps=rng.random() < 0.7,
                                     collide=collide, max_parents=3 if rng.random() < 0.2 else 2)
        yield hist


def drive_commands(ctx, runner, rng, hist, cmds_per_graph, cmd_weights, on_result, start_states=None):
    """a command sequence from the empty database: every state is one the implementation reached"""
    sd, info = rev_impl.load(hist)
    if sd is None:
        return False
    norm_order = info["normOrder"]
    rows = []
    for k in range(cmds_per_graph):
        cmd = rng.choices(["upgrade", "downgrade", "stamp"], weights=cmd_weights)[0]
        if not rows and cmd == "downgrade" and rng.random() < 0.8:
            cmd = "upgrade"
        pool = targets_for(rng, hist, info, cmd, rows)
        target = rng.choice(pool)
        # the version table hands rows back in arbitrary order: shuffle what we pass in
        rows_in = list(rows)
        rng.shuffle(rows_in)
        impl = runner.case(hist, sd, norm_order, rows_in, cmd, target)
        if "err" not in impl and "stepErr" not in impl:
            rows = final_rows(impl, rows_in)
        if rng.random() < 0.08:
            rows = []
    return True
