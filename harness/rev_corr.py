"""Shared correspondence runner of the revision engine (C01, C02, C03, C05, C15, C16).

One *case* = (history, rows, command).  The implementation side runs the real
ScriptDirectory / RevisionMap / HeadMaintainer (harness/rev_impl.py); the model side is
`drv_rev`.  Each property module says which part of the answers it compares and which Lean
spec checker it evaluates on the implementation's output.
"""
from __future__ import annotations

import itertools
import json
import re

from . import gen_graph, rev_impl


REL_RE = re.compile(r"^(?:(.+?)@)?(\w+)?((?:\+|-)\d+)$")


def canon_stmts(stmts):
    removed = sorted([s[1] for s in stmts if s[0] in ("del", "upd")])
    added = sorted([s[1] for s in stmts if s[0] == "ins"] + [s[2] for s in stmts if s[0] == "upd"])
    return {"removed": removed, "added": added, "n": len(stmts)}


def canon_cmd(ans):
    """canonical form of a rev.cmd answer from either side"""
    if "err" in ans or "loadErr" in ans:
        return {k: ans[k] for k in ("err", "loadErr") if k in ans}
    out = {"steps": ans["steps"], "trace": [{"rows": sorted(t["rows"]), "stmts": canon_stmts(t["stmts"])} for t in ans["trace"]]}
    if "stepErr" in ans:
        out["stepErr"] = ans["stepErr"]
    return out


def targets_for(rng, hist, info, cmd, rows):
    ids = [r["id"] for r in hist]
    labels = [l for r in hist for l in r.get("labels", [])]
    line = sorted(i for i in ids if i[2:5] == "c0f")
    if len(line) >= 13 and cmd in ("upgrade", "downgrade"):
        # a long line (gen_graph.deep_line_history): mostly offsets of two digits
        lo, hi = rng.choice(line[:3]), rng.choice(line[-3:])
        if cmd == "upgrade":
            deep = ["+10", "+11", "+12", lo + "+10", lo + "+11", lo + "+12", "trunk@+10", "trunk@+11", hi + "-10", "trunk@head-10",
                    "heads", lo + "+2", "+1"]
        else:
            deep = ["-10", "-11", hi + "-10", hi + "-11", hi + "-12", "trunk@-10", "trunk@" + hi + "-11", "base", hi + "-2", "-1"]
        return deep
    if cmd == "upgrade":
        pool = ["heads", "head", "base"] + ids + [i + "+1" for i in ids[:3]] + ["+1", "+2", "+3"]
        for l in labels:
            pool += [l + "@head", l + "@heads", l + "@+1", l + "@" + rng.choice(ids)]
        pool += [i[: max(1, len(i) - 1)] for i in ids if len(i) > 4][:3]
        pool += [rng.choice(ids) + "-1", rng.choice(ids) + "+2", rng.choice(ids) + "+0"]
        # a branch may be named by a revision id, full or partial, as well as by a label (docs: `ae10@head`)
        for i in rng.sample(ids, min(2, len(ids))):
            sel = [i] + ([i[:-1], i[:4]] if len(i) > 4 else [])
            pool += [rng.choice(sel) + "@head", rng.choice(sel) + "@heads", rng.choice(sel) + "@+1",
                     rng.choice(sel) + "@" + rng.choice(ids)]
    elif cmd == "downgrade":
        pool = ["base", "-1", "-2", "-3"] + ids + [i + "-1" for i in ids[:3]]
        for l in labels:
            pool += [l + "@base", l + "@-1", l + "@" + rng.choice(ids), l + "@" + rng.choice(ids) + "-1"]
        pool += [i[: max(1, len(i) - 1)] for i in ids if len(i) > 4][:3]
        pool += [rng.choice(ids) + "+1", rng.choice(ids) + "-2"]
        for i in rng.sample(ids, min(2, len(ids))):
            sel = [i] + ([i[:-1], i[:4]] if len(i) > 4 else [])
            pool += [rng.choice(sel) + "@base", rng.choice(sel) + "@-1", rng.choice(sel) + "@" + rng.choice(ids)]
    else:
        pool = [["heads"], ["base"]] + [[i] for i in ids]
        if len(ids) >= 2:
            pool += [rng.sample(ids, 2) for _ in range(3)]
        if len(ids) >= 3:
            pool += [rng.sample(ids, 3)]
        for l in labels:
            pool += [[l + "@head"], [l + "@heads"]]
        for i in rng.sample(ids, min(2, len(ids))):
            sel = [i] + ([i[:-1], i[:4]] if len(i) > 4 else [])
            pool += [[rng.choice(sel) + "@head"], [rng.choice(sel) + "@heads"]]
        # destinations named by a partial id (unique prefixes resolve, others are refused), alone
        # and next to a full id
        longs = [i for i in ids if len(i) > 4]
        for i in longs[:4]:
            pool.append([i[:-1]])
            pool.append([i[:4]])
        if longs and len(ids) >= 2:
            pool.append([longs[0][:-1], rng.choice([i for i in ids if i != longs[0]])])
    return pool


class RevRunner:
    def __init__(self, ctx):
        self.ctx = ctx
        self.vdb = rev_impl.VersionDb()
        self.pending = []  # (case, impl)
        self.results = []

    def close(self):
        self.vdb.close()

    def case(self, hist, sd, norm_order, rows, cmd, target, prior=None, loaded_first=None):
        """runs the implementation now, queues the model.  `prior` = the commands already run on this
        very ScriptDirectory object (the model is stateless; a dependence on them is a finding)"""
        impl = rev_impl.command(sd, self.vdb, rows, cmd, target)
        c = {"revs": hist, "normOrder": norm_order, "rows": list(rows), "cmd": cmd}
        if prior:
            c["prior"] = [list(p) for p in prior]
        if loaded_first is not None:
            c["loadedFirst"] = loaded_first  # the first so many revisions were loaded, the others added in place
        if cmd == "stamp":
            c["targets"] = list(target)
        else:
            c["target"] = target
        self.pending.append((c, impl))
        return impl

    def flush(self, on_result):
        if not self.pending:
            return
        ans = self.ctx.drv.ask([{"op": "rev.cmd", **c} for c, _ in self.pending])
        for (c, impl), model in zip(self.pending, ans):
            on_result(c, impl, model)
        self.pending = []


def final_rows(impl, rows):
    if "trace" in impl and impl["trace"]:
        return list(impl["trace"][-1]["rows"])
    return list(rows)


def random_histories(ctx, rng, n_graphs, size_lo, size_hi, labels=True, collide=False):
    for k_ in range(n_graphs):
        if k_ % 40 == 7:
            # a long line: relative targets with two-digit offsets
            yield gen_graph.deep_line_history(rng)
            continue
        if k_ % 12 == 5:
            # descriptive ids, one contained in another, lineages tied by depends_on
            yield gen_graph.descriptive_history(rng)
            continue
        n = rng.randint(size_lo, size_hi)
        # a quarter of the histories use short ids over a tiny alphabet: ids that are prefixes /
        # substrings of each other (hand-numbered revisions such as 2, 20, 21)
        hist = gen_graph.gen_history(rng, n, labels=labels and rng.random() < 0.6, deps=rng.random() < 0.7,
                                     collide=collide or rng.random() < 0.25, max_parents=3 if rng.random() < 0.2 else 2,
                                     numeric=rng.random() < 0.1)
        yield hist


def live_norm_order(sd, hist):
    m = sd.revision_map
    revs = [m._revision_map[r["id"]] for r in hist]
    return [{"id": r.revision, "order": list(r._normalized_resolved_dependencies)} for r in revs
            if len(r._normalized_resolved_dependencies) > 1]


def grow(sd, rev):
    """ScriptDirectory.generate_revision's effect on the live map"""
    import warnings

    from . import revfake

    with warnings.catch_warnings():
        warnings.simplefilter("ignore")
        sd.revision_map.add_revision(revfake.make_scripts([rev])[0])


def drive_commands(ctx, runner, rng, hist, cmds_per_graph, cmd_weights, on_result, start_states=None):
    """a command sequence from the empty database: every state is one the implementation reached.
    In a fifth of the sequences the history *grows in place* between commands (new head revisions are
    added to the live map through add_revision, as `alembic revision` does): the plans afterwards
    must be those of the enlarged history (the model is stateless)."""
    late = []
    if len(hist) >= 4 and rng.random() < 0.2:
        tips = [r for r in hist if not r["labels"] and not any(r["id"] in q["down"] or r["id"] in q["deps"] for q in hist)]
        late = tips[-2:]
    early = [r for r in hist if r not in late]
    sd, info = rev_impl.load(early)
    if sd is None:
        return False
    if late:
        ctx.hist("graph", "grown-in-place")
    hist_now = list(early)
    norm_order = info["normOrder"]
    rows = []
    prior = []
    grow_at = {max(1, cmds_per_graph // 3): 0, max(2, 2 * cmds_per_graph // 3): 1}
    for k in range(cmds_per_graph):
        if late and k in grow_at and grow_at[k] < len(late):
            try:
                grow(sd, late[grow_at[k]])
                hist_now = hist_now + [late[grow_at[k]]]
                norm_order = live_norm_order(sd, hist_now)
            except Exception:  # noqa  (a refused addition is C17's business)
                late = []
        cmd = rng.choices(["upgrade", "downgrade", "stamp"], weights=cmd_weights)[0]
        if not rows and cmd == "downgrade" and rng.random() < 0.8:
            cmd = "upgrade"
        pool = targets_for(rng, hist_now, info, cmd, rows)
        target = rng.choice(pool)
        # the version table hands rows back in arbitrary order: shuffle what we pass in
        rows_in = list(rows)
        rng.shuffle(rows_in)
        impl = runner.case(hist_now, sd, norm_order, rows_in, cmd, target, prior=prior,
                           loaded_first=len(early) if late else None)
        prior.append((rows_in, cmd, target, len(hist_now)) if late else (rows_in, cmd, target))
        if "err" not in impl and "stepErr" not in impl:
            rows = final_rows(impl, rows_in)
        if rng.random() < 0.08:
            rows = []
    return True


# ---------------------------------------------------------------------------------------------
# property runner
# ---------------------------------------------------------------------------------------------

REV_TRUSTED = [
    "Python set iteration order (tuple(set(...)) of normalized dependencies) is read from the implementation and given to the model, which checks it is a permutation of what it computed",
    "SQLite in-memory alembic_version table + real HeadMaintainer are the observation point for rows (C03/C05)",
    "exception classes are compared through a small enum (harness/rev_impl.py:err_name)",
]


def parse_impl_upgrade_targets(sd, rows, target):
    try:
        import warnings

        with warnings.catch_warnings():
            warnings.simplefilter("ignore")
            t = sd.revision_map._parse_upgrade_target(tuple(rows), target, True)
        return [r.revision for r in t]
    except Exception:
        return None


def names_a_branch(target):
    """does this downgrade target restrict the downgrade to one branch?"""
    if not isinstance(target, str):
        return False
    mm = REL_RE.match(target)
    if mm:
        label, sym, rel = mm.groups()
        return bool(label) or (sym is None and int(rel) < 0)
    return "@" in target


def parse_impl_downgrade_target(sd, rows, target):
    try:
        import warnings

        with warnings.catch_warnings():
            warnings.simplefilter("ignore")
            b, r = sd.revision_map._parse_downgrade_target(tuple(rows), target, True)
            if r == "base":
                r = None
            br = None
            if b:
                brr = sd.revision_map._resolve_branch(b)
                br = brr.revision if brr is not None else None
        return {"target": r.revision if r is not None else None, "branch": br}
    except Exception:
        return None


class Focus:
    """what one property looks at"""

    def __init__(self, prop, cmds, weights):
        self.prop = prop
        self.cmds = cmds
        self.weights = weights


FOCI = {
    "C01": Focus("C01", ("upgrade",), [8, 2, 2]),
    "C02": Focus("C02", ("downgrade",), [4, 6, 2]),
    "C03": Focus("C03", ("upgrade", "downgrade"), [6, 5, 1]),
    "C05": Focus("C05", ("stamp",), [4, 2, 6]),
}


def histories_for(ctx, rng):
    """exhaustive small DAGs, then random larger ones"""
    n_ex = 4 if ctx.thorough else 3
    for n in range(1, n_ex + 1):
        for hist in gen_graph.all_histories(n):
            yield "exhaustive-%d" % n, hist
    n_rand = 1500 if ctx.thorough else 450
    for hist in random_histories(ctx, rng, n_rand, 2, 14 if ctx.thorough else 12):
        yield "random", hist


def run_focus(ctx, focus_name, rng_name="main", scale=1.0):
    focus = FOCI[focus_name]
    rng = ctx.rng(rng_name)
    runner = RevRunner(ctx)
    sds = {}
    collected = []  # (c, impl, model, sd)

    def on_result(c, impl, model):
        collected.append((c, impl, model))

    for kind, hist in histories_for(ctx, rng):
        sd, info = rev_impl.load(hist)
        if sd is None:
            continue
        key = json.dumps(hist, sort_keys=True)
        sds[key] = sd
        ctx.hist("graph", kind)
        ctx.hist("n_revisions", len(hist))
        ctx.hist("merge_points", sum(1 for r in hist if len(r["down"]) > 1))
        ctx.hist("with_deps", sum(1 for r in hist if r["deps"]))
        if kind.startswith("exhaustive"):
            # every antichain state x every target of the focus commands
            norm_order = info["normOrder"]
            for rows in gen_graph.all_antichain_states(hist):
                for cmd in focus.cmds:
                    pool = targets_for(rng, hist, info, cmd, rows)
                    seen = set()
                    for t in pool:
                        tk = json.dumps(t)
                        if tk in seen:
                            continue
                        seen.add(tk)
                        runner.case(hist, sd, norm_order, rows, cmd, t)
        else:
            drive_commands(ctx, runner, rng, hist, int((14 if ctx.thorough else 12) * scale), focus.weights, on_result)
        if len(runner.pending) > 4000:
            runner.flush(on_result)
            judge(ctx, focus, collected, sds)
            collected = []
    runner.flush(on_result)
    judge(ctx, focus, collected, sds)
    runner.close()
    if focus_name in ("C03", "C05"):
        # the same commands the way env.py runs them: a fresh MigrationContext per command, heads
        # read from the table, version-table options (harness/rev_ctx.py); for C05 this is where
        # `stamp` meets version_table / version_table_schema / version_table_pk
        from . import rev_ctx

        cases = []
        for k in range(int((72 if ctx.thorough else 18) * scale)):
            hist = gen_graph.gen_history(rng, rng.randint(2, 8), labels=rng.random() < 0.4, deps=rng.random() < 0.6)
            sd, info = rev_impl.load(hist)
            if sd is None:
                continue
            sds[json.dumps(hist, sort_keys=True)] = sd
            rev_ctx.drive(ctx, cases, rng, hist, 8, focus.weights, rev_ctx.OPTION_SETS[k % len(rev_ctx.OPTION_SETS)])
        if cases:
            ans = ctx.drv.ask([{"op": "rev.cmd", **{k: v for k, v in c.items() if k != "ctxopts"}} for c, _ in cases])
            judge(ctx, focus, [(c, impl, model) for (c, impl), model in zip(cases, ans)], sds)
    ctx.exhaustive = False


def denoted_plain(hist, target):
    """the one revision a plain identifier (no `@`, no offset, not a symbolic name) denotes, decided from the history
    alone: a full id, a branch label, or the unique revision id longer than three characters that starts with it"""
    if not target or any(ch in target for ch in "@+-") or target in ("head", "heads", "base"):
        return None
    ids = [r["id"] for r in hist]
    if target in ids:
        return target
    for r in hist:
        if target in r.get("labels", []):
            return r["id"]
    cands = [i for i in ids if i.startswith(target)]
    if len(cands) == 1 and len(cands[0]) > 3:
        return cands[0]
    return None


def denoted_qualified(hist, target):
    """(revision, branch revision) for an absolute target `<branch>@<full revision id>`; None for every other spelling"""
    if target.count("@") != 1:
        return None
    q, r = target.split("@")
    if r not in [x["id"] for x in hist] or any(ch in r for ch in "+-"):
        return None
    b = denoted_plain(hist, q)
    return None if b is None else (r, b)


def judge(ctx, focus, collected, sds):
    """correspondence + Lean spec checkers on the implementation's output"""
    spec_ops = []
    spec_meta = []
    for c, impl, model in collected:
        cmd = c["cmd"]
        ctx.evaluation()
        ctx.hist("cmd", cmd)
        if cmd not in focus.cmds:
            continue
        ci, cm = canon_cmd(impl), canon_cmd(model)
        # what this property compares
        if focus.prop in ("C01", "C02"):
            a = {k: ci.get(k) for k in ("err", "steps")}
            b = {k: cm.get(k) for k in ("err", "steps")}
        else:
            a, b = ci, cm
        inp = {k: c[k] for k in c}
        if a != b:
            ctx.disagree("rev.cmd", inp, a, b)
        else:
            ctx.trace_ok()
        if "err" in impl:
            ctx.hist("impl_error", impl["err"])
        tgt = c.get("target", c.get("targets"))
        ctx.hist("target_kind", target_kind(tgt))
        key = json.dumps(c["revs"], sort_keys=True)
        if key not in sds:  # histories that grew in place: a fresh map of what the live map holds now
            sds[key] = rev_impl.load(c["revs"])[0]
        sd = sds[key]
        h = {"revs": c["revs"]}
        if focus.prop == "C01" and "steps" in impl:
            plan = [s["rev"] for s in impl["steps"]]
            if plan:
                ctx.nontrivial(("up", json.dumps(c["revs"], sort_keys=True), tuple(sorted(c["rows"])), tgt))
            it = parse_impl_upgrade_targets(sd, c["rows"], c["target"])
            spec_ops.append({"op": "rev.spec.targets", **h, "ident": c["target"]})
            spec_meta.append(("targets", inp, impl, it))
            # `+N` / `label@+N` without a revision: the target is exactly N links above the single
            # applied tip it must start counting from (Spec.Rev.relUpOk)
            mm = REL_RE.match(c["target"]) if isinstance(c["target"], str) else None
            if mm and not mm.group(2) and int(mm.group(3)) > 0 and it and len(it) == 1 and it[0] is not None:
                op = {"op": "rev.spec.relup", **h, "rows": c["rows"], "n": int(mm.group(3)), "result": it[0]}
                if mm.group(1):
                    op["label"] = mm.group(1)
                spec_ops.append(op)
                spec_meta.append(("relup", inp, impl, (it[0], int(mm.group(3)))))
            # `rev+N`: exactly N down_revision links above the named revision
            if mm and mm.group(2) in [r["id"] for r in c["revs"]] and int(mm.group(3)) > 0 and it and len(it) == 1 and it[0] is not None:
                spec_ops.append({"op": "rev.spec.steps", **h, "n": int(mm.group(3)), "from": it[0], "to": mm.group(2)})
                spec_meta.append(("usteps", inp, impl, (mm.group(2), int(mm.group(3)), it[0])))
        elif focus.prop == "C01" and impl.get("err") == "resolution" and "steps" in model and isinstance(tgt, str):
            # the target is refused as unknown although it denotes one revision (a full id, a label, or the one
            # revision id - of more than three characters, see finding F13 - that starts with it): no plan at all
            d = denoted_plain(c["revs"], tgt)
            if d is not None:
                ctx.fail(inp, "refused-target: upgrade %r is refused as unresolvable although it denotes exactly revision %r; "
                              "the plan of the missing revisions is %s" % (tgt, d, [s_["rev"] for s_ in model["steps"]]),
                         impl=impl, tags=["refused", "partial-id"])
        elif focus.prop == "C02" and impl.get("err") == "resolution" and model.get("steps") and isinstance(tgt, str) \
                and denoted_qualified(c["revs"], tgt) is not None:
            # `error iff the set is empty and T is not a current head`: the absolute target `<branch>@<revision id>` names
            # a revision of the history and a branch (decided from the history alone), revisions above it are applied
            # (the proved model removes them) - and the command refuses the target as unknown
            ctx.fail(inp, "refused-target: downgrade %r is refused as unresolvable although it names revision %r and branch %r; "
                          "the revisions to remove are %s" % ((tgt,) + denoted_qualified(c["revs"], tgt) + ([s_["rev"] for s_ in model["steps"]],)),
                     impl=impl, tags=["refused", "qualified"])
        elif focus.prop == "C02":
            pt = parse_impl_downgrade_target(sd, c["rows"], c["target"])
            if pt is not None and not names_a_branch(c["target"]):
                # only `label@…` and the bare `-N` form (relative to the first current row) restrict
                # the downgrade to one branch; for every other spelling the oracle judges the plan
                # against ALL down-revision children of the target, whatever the implementation chose
                pt = dict(pt, branch=None)
            elif pt is not None and isinstance(c["target"], str) and re.fullmatch(r"-\d+", c["target"]) and c["rows"]:
                # the bare `-N` is restricted to the branch of the first current row (C16.rel_dgrade_row),
                # whether or not the implementation says so
                pt = dict(pt, branch=c["rows"][0])
            if pt is not None and ("steps" in impl or impl.get("err") == "rangeNotAncestor"):
                if "steps" in impl:
                    plan = [s["rev"] for s in impl["steps"]]
                    if plan:
                        ctx.nontrivial(("down", json.dumps(c["revs"], sort_keys=True), tuple(sorted(c["rows"])), tgt))
                    spec_ops.append({"op": "rev.spec.downgrade", **h, "rows": c["rows"], "plan": plan,
                                     **({"target": pt["target"]} if pt["target"] else {}),
                                     **({"branch": pt["branch"]} if pt["branch"] else {})})
                    spec_meta.append(("downgrade", inp, impl, pt))
                spec_ops.append({"op": "rev.spec.refuse", **h, "rows": c["rows"],
                                 **({"target": pt["target"]} if pt["target"] else {}),
                                 **({"branch": pt["branch"]} if pt["branch"] else {})})
                spec_meta.append(("refuse", inp, impl, pt))
                spec_ops.append({"op": "rev.spec.targets", **h, "ident": c["target"]})
                spec_meta.append(("dtarget", inp, impl, pt))
                # relative targets: `rev-N` / `-N` name the revision exactly N down_revision links below
                mm = REL_RE.match(c["target"])
                if mm and "steps" in impl and int(mm.group(3)) < 0:
                    n = -int(mm.group(3))
                    sym = mm.group(2)
                    ids_ = [r["id"] for r in c["revs"]]
                    start = sym if sym in ids_ else (c["rows"][0] if sym is None and mm.group(1) is None and len(c["rows"]) == 1 else None)
                    if start is not None:
                        op = {"op": "rev.spec.steps", **h, "n": n, "from": start}
                        if pt["target"]:
                            op["to"] = pt["target"]
                        spec_ops.append(op)
                        spec_meta.append(("dsteps", inp, impl, (start, n, pt["target"])))
        elif focus.prop == "C03" and "steps" in impl:
            if impl["steps"]:
                ctx.nontrivial((cmd, json.dumps(c["revs"], sort_keys=True), tuple(sorted(c["rows"])), tgt))
            spec_ops.append({"op": "rev.spec.trace", **h, "rows": c["rows"], "steps": impl["steps"][: len(impl["trace"])],
                             "trace": [t["rows"] for t in impl["trace"]]})
            spec_meta.append(("trace", inp, impl, None))
        elif focus.prop == "C05" and ("steps" in impl or ("err" in impl and "steps" in model)):
            # (a stamp the implementation refuses although the model - C05.stamp_several: no statement fails - records
            # it is judged too: the table is then not where the formula says)
            if impl.get("steps"):
                ctx.nontrivial(("stamp", json.dumps(c["revs"], sort_keys=True), tuple(sorted(c["rows"])), json.dumps(tgt)))
            for t in c["targets"]:
                spec_ops.append({"op": "rev.spec.targets", **h, "ident": t})
                spec_meta.append(("starget", inp, impl, None))
    if not spec_ops:
        return
    ans = ctx.drv.ask(spec_ops)
    second = []
    second_meta = []
    k = 0
    while k < len(ans):
        kind, inp, impl, extra = spec_meta[k]
        a = ans[k]
        h = {"revs": inp["revs"]}
        if kind == "targets":
            plan = [s["rev"] for s in impl["steps"]]
            if "targets" in a:
                targets = a["targets"]
                if extra is not None and sorted(extra) != sorted(targets):
                    ctx.fail(inp, "target-resolution: upgrade target resolves to %s, documented meaning is %s" % (extra, targets), impl=impl, tags=["resolution"])
            else:
                targets = extra
            if targets is not None:
                second.append({"op": "rev.spec.upgrade", **h, "rows": inp["rows"], "targets": targets, "plan": plan})
                second_meta.append(("upgrade", inp, impl, targets))
            k += 1
        elif kind == "downgrade":
            if a.get("holds") is not True:
                ctx.fail(inp, "downgrade-plan: plan %s is not exactly the applied dependents of target %s, children first" % ([s["rev"] for s in impl["steps"]], extra), impl=impl, tags=["plan"])
            k += 1
        elif kind == "refuse":
            must = a.get("mustRefuse")
            refused = impl.get("err") == "rangeNotAncestor"
            if must and not refused and "steps" in impl:
                ctx.fail(inp, "not-refused: nothing to remove and database not at the target %s, but a plan was returned" % (extra,), impl=impl, tags=["refuse"])
            if refused and not must:
                ctx.fail(inp, "wrongly-refused: downgrade refused although target %s is current or something is removable" % (extra,), impl=impl, tags=["refuse"])
            k += 1
        elif kind == "dtarget":
            if "targets" in a and "steps" in impl:
                want = a["targets"][0] if a["targets"] else None
                if len(a["targets"]) <= 1 and extra["target"] != want:
                    ctx.fail(inp, "target-resolution: downgrade target resolves to %s, documented meaning is %s" % (extra["target"], want), impl=impl, tags=["resolution"])
            k += 1
        elif kind == "relup":
            if a.get("holds") is False:
                ctx.fail(inp, "target-resolution: relative upgrade target %r from rows %s resolves to %s, which is not exactly %d down_revision links above the applied tip it must count from" % (inp["target"], inp["rows"], extra[0], extra[1]), impl=impl, tags=["resolution", "relup"])
            k += 1
        elif kind == "usteps":
            if a.get("holds") is not True:
                ctx.fail(inp, "target-distance: relative upgrade target %r resolves to %s, which is not exactly %d down_revision links above %s" % (inp["target"], extra[2], extra[1], extra[0]), impl=impl, tags=["resolution", "distance"])
            k += 1
        elif kind == "dsteps":
            if a.get("holds") is not True:
                ctx.fail(inp, "target-distance: relative downgrade target %r resolves to %s, which is not exactly %d down_revision links below %s" % (inp["target"], extra[2] or "base", extra[1], extra[0]), impl=impl, tags=["resolution", "distance"])
            k += 1
        elif kind == "trace":
            if impl.get("stepErr") and a.get("startOk"):
                ctx.fail(inp, "bookkeeping-failed: %s while recording step %d of a plan Alembic produced" % (impl["stepErr"], len(impl["trace"])), impl=impl, tags=["stepErr"])
            elif a.get("startOk") and a.get("holds") is not True:
                ctx.fail(inp, "rows-not-heads: after some step the version table is not the set of maximal applied revisions", impl=impl, tags=["rows"])
            elif not a.get("startOk"):
                ctx.hist("skipped", "start state is not an antichain")
            k += 1
        elif kind == "starget":
            # gather all targets of this stamp command
            n = len(inp["targets"])
            group = ans[k : k + n]
            k += n
            named = [t for g in group for t in g.get("targets", [])]
            if len(named) != len(set(named)):
                ctx.hist("skipped", "the same destination named twice")
            elif all("targets" in g for g in group) and "err" in impl:
                dests = []
                for g in group:
                    for t in g["targets"]:
                        if t not in dests:
                            dests.append(t)
                second.append({"op": "rev.spec.antichain", **h, "rows": inp["rows"]})
                second_meta.append(("stamp-pre", inp, impl, dests))
                second.append({"op": "rev.spec.antichain", **h, "rows": dests})
                second_meta.append(("stamp-pre2", inp, impl, dests))
                # the table stays as it was: is that where the formula says it should be?
                second.append({"op": "rev.spec.stamp", **h, "rows": inp["rows"], "dests": dests, "rows2": inp["rows"]})
                second_meta.append(("stamp-refused", inp, impl, dests))
            elif all("targets" in g for g in group) and "stepErr" not in impl:
                dests = []
                for g in group:
                    for t in g["targets"]:
                        if t not in dests:
                            dests.append(t)
                rows2 = impl["trace"][-1]["rows"] if impl["trace"] else inp["rows"]
                second.append({"op": "rev.spec.antichain", **h, "rows": inp["rows"]})
                second_meta.append(("stamp-pre", inp, impl, dests))
                second.append({"op": "rev.spec.antichain", **h, "rows": dests})
                second_meta.append(("stamp-pre2", inp, impl, dests))
                second.append({"op": "rev.spec.stamp", **h, "rows": inp["rows"], "dests": dests, "rows2": rows2})
                second_meta.append(("stamp", inp, impl, dests))
            elif "stepErr" in impl and len(named) == len(set(named)):
                second.append({"op": "rev.spec.antichain", **h, "rows": inp["rows"]})
                second_meta.append(("stamp-err", inp, impl, None))
        else:
            k += 1
    if second:
        ans2 = ctx.drv.ask(second)
        pre_ok = True
        for (kind, inp, impl, extra), a in zip(second_meta, ans2):
            if kind == "upgrade":
                if a.get("holds") is not True:
                    ctx.fail(inp, "upgrade-plan: plan %s is not exactly the missing ancestors of %s in dependency order" % ([s["rev"] for s in impl["steps"]], extra), impl=impl, tags=["plan"])
            elif kind == "stamp-pre":
                pre_ok = a.get("holds") is True
            elif kind == "stamp-pre2":
                pre_ok = pre_ok and a.get("holds") is True
            elif kind == "stamp":
                if pre_ok and a.get("holds") is not True:
                    ctx.fail(inp, "stamp-rows: rows after stamp are not (rows minus lineage of the destinations) plus the destinations %s" % (extra,), impl=impl,
                             tags=["multi" if len(extra) > 1 else "single"])
                elif not pre_ok:
                    ctx.hist("skipped", "start rows or destinations are not an antichain")
            elif kind == "stamp-refused":
                if pre_ok and a.get("holds") is not True:
                    ctx.fail(inp, "stamp-refused: stamp raised %s and left the table as it was, which is not (rows minus lineage of the destinations) "
                                  "plus the destinations %s" % (impl["err"], extra), impl=impl, tags=["refused"])
            elif kind == "stamp-err":
                if a.get("holds") is True:
                    ctx.fail(inp, "bookkeeping-failed: %s while recording a stamp step" % impl["stepErr"], impl=impl, tags=["stepErr"])
    for c, impl, model in collected[:2]:
        if c["cmd"] in focus.cmds:
            ctx.sample({"history": c["revs"], "rows": c["rows"], "cmd": c["cmd"], "target": c.get("target", c.get("targets")),
                        "impl": canon_cmd(impl)})


def target_kind(t):
    if isinstance(t, list):
        return "multi" if len(t) > 1 else target_kind(t[0])
    if t in ("head", "heads", "base"):
        return t
    k = []
    if "@" in t:
        k.append("label@")
    if "+" in t:
        k.append("+N")
    elif "-" in t:
        k.append("-N")
    return "".join(k) or "id"
