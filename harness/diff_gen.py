"""Generators of the `diff` workstream: abstract schemas, schema pairs, the C07 mutation
catalogue, and the well-formedness predicate (the class the Lean theorems quantify over)."""
from __future__ import annotations

import copy

from .diff_schema import flag_index_name, CATALOGUE, COLLATABLE, COLLATIONS, REFLECTABLE, UNREFLECTABLE

TNAMES = ["acct", "b_item", "cust", "dept", "evt", "f1", "grp", "h2o", "inv", "jrnl", "k_9", "loc"]
CNAMES = ["id", "a", "b", "c", "d", "e", "name", "qty", "ref", "ts", "flag", "x1", "y_2", "note", "amt"]

STR_PLAIN = ["abc", "Pending", "ACTIVE", "a b", "5", "x)", "(", "hello world", "0", "a,b", "N/A", '"q"', "%", "CURRENT_TIMESTAMP", "-1", "{}", "[]", "1 + 2"]
STR_ODD = ["it's", "", "(abc)", "'", "a\nb", "''", "(1)", "o'clock", "\n", "[:b1", " :x", "a :b c", "(none)"]
EXPR_PLAIN = ["0", "1", "10", "-1", "1.5", "'abc'", "'Pending'", "('Open')", "'it''s'", "''", "'a b'", "CURRENT_TIMESTAMP", "NULL", "TRUE", "FALSE",
              "(1 + 2)", "(datetime('now'))", "(abs(-3))", "'(x)'", "x'00'", "42", "'5'", "(7)", "CURRENT_DATE", "(1 + (2))",
              # parenthesised literals / expressions, the way SQLite's grammar writes expression defaults
              "('abc')", "('{}')", "('[]')", "('it''s')", "('a b')", "('')", "(10)", "(-1)", "(0)", "0.5", "(0.5)", "(lower('A'))",
              "(CURRENT_TIMESTAMP)", "(NULL)", "(TRUE)"]
EXPR_ODD = ["((1))", "( 1 )", " 7 ", "((1) + (2))", "( 'a' )", "((1 + 2))", "(('a'))", "('a' || 'b')", "('x' || 'y' || 'z')"]
FUNCS = ["now", "current_timestamp"]

FK_ACTIONS = [None, None, None, "CASCADE", "SET NULL", "RESTRICT", "NO ACTION"]
# deferrable x initially combinations SQLite accepts (INITIALLY needs [NOT] DEFERRABLE) and reflects
FK_DEFER = [(None, None)] * 6 + [(True, None), (True, "DEFERRED"), (True, "IMMEDIATE"), (False, None), (False, "DEFERRED"), (False, "IMMEDIATE")]


def gen_type(rng, odd=False):
    fams = REFLECTABLE if not odd or rng.random() < 0.6 else UNREFLECTABLE
    fam = rng.choice(fams)
    ar = rng.choice(CATALOGUE[fam][1])
    if fam == "Enum":
        args = [rng.randint(1, 40)]
    elif ar == 0:
        args = []
    elif ar == 1:
        args = [rng.choice([1, 2, 5, 10, 20, 30, 53, 64, 255, rng.randint(1, 4000)])]
    else:
        p = rng.randint(1, 38)
        args = [p, rng.randint(0, p)]
    ty = {"fam": fam, "args": args}
    if fam in COLLATABLE and rng.random() < 0.3:
        ty["coll"] = rng.choice(COLLATIONS)
    if rng.random() < 0.1:
        ty["variant"] = gen_variant(rng)
    return ty


VARIANT_TYPES = [{"fam": "Integer", "args": []}, {"fam": "BigInteger", "args": []}, {"fam": "String", "args": [40]}, {"fam": "Text", "args": []},
                 {"fam": "Numeric", "args": [12, 2]}, {"fam": "Float", "args": []}, {"fam": "Boolean", "args": []}]


def gen_variant(rng):
    """base.with_variant(<type>, <dialect>): the variant counts on SQLite only when it names sqlite"""
    return {"dialect": rng.choice(["sqlite", "sqlite", "sqlite", "postgresql", "mysql"]), "ty": copy.deepcopy(rng.choice(VARIANT_TYPES))}


def effective_ty(ty):
    """the type the column has on SQLite (what the model sees)"""
    v = ty.get("variant")
    if v and v["dialect"] == "sqlite":
        return effective_ty(v["ty"])
    return {k: x for k, x in ty.items() if k != "variant"}


def to_model(obj):
    """a request for the Lean driver: every type replaced by its SQLite-effective type, and the spelled-out default
    schema of a table dropped (schema="main" is the same table)"""
    if isinstance(obj, dict):
        if "fam" in obj:
            return effective_ty(obj)
        return {k: to_model(v) for k, v in obj.items() if not (k == "schema" and "cols" in obj)}
    if isinstance(obj, list):
        return [to_model(x) for x in obj]
    return obj


def gen_default(rng, odd=False, funcs=False):
    r = rng.random()
    if r < 0.45:
        return None
    if funcs and rng.random() < 0.06:
        return {"kind": "func", "v": rng.choice(FUNCS)}
    if odd and rng.random() < 0.5:
        if rng.random() < 0.6:
            return {"kind": "str", "v": rng.choice(STR_ODD)}
        return {"kind": "expr", "v": rng.choice(EXPR_ODD)}
    if rng.random() < 0.45:
        v = rng.choice(STR_PLAIN)
        if rng.random() < 0.3:
            v = "".join(rng.choice("abcXYZ 019_-.,;!?()[]") for _ in range(rng.randint(1, 8)))
            if v.startswith("(") and v.endswith(")") and len(v) >= 3:
                v = "s" + v
        return {"kind": "str", "v": v}
    return {"kind": "expr", "v": rng.choice(EXPR_PLAIN)}


def gen_col(rng, name, odd=False, pk=False, funcs=False):
    nullable = False if pk else rng.random() < 0.6
    return {"name": name, "ty": gen_type(rng, odd) if not pk else rng.choice([{"fam": "Integer", "args": []}, {"fam": "String", "args": [20]}, {"fam": "BigInteger", "args": []}]),
            "nullable": nullable, "pk": pk, "default": None if pk else gen_default(rng, odd, funcs)}


def _fresh(rng, pool, used, prefix):
    cand = [n for n in pool if n not in used]
    if cand:
        return rng.choice(cand)
    i = 0
    while "%s%d" % (prefix, i) in used:
        i += 1
    return "%s%d" % (prefix, i)


def gen_index(rng, table, used_names, cols=None):
    names = [c["name"] for c in table["cols"]]
    k = rng.choice([1, 1, 1, 2, 2, 3])
    cols = cols or rng.sample(names, min(k, len(names)))
    nm = _fresh(rng, [], used_names, "ix_%s_%s_" % (table["name"], "_".join(cols)[:12]))
    ix = {"name": nm, "cols": cols, "unique": rng.random() < 0.3}
    flag_name = flag_index_name(table, cols[0])
    if len(cols) == 1 and flag_name not in used_names and rng.random() < 0.5:
        # declared with the column-level flag: Column(index=True[, unique=True]) -> Index("ix_<table>_<column>")
        ix["name"] = flag_name
        ix["flag"] = True
    elif rng.random() < 0.12:
        ix["desc"] = True
    return ix


def unnamed_sigs(table):
    """column signatures of the table's unnamed unique constraints (UniqueConstraint without name, Column(unique=True))"""
    return {tuple(sorted(u["cols"])) for u in table.get("uuqs", [])} | {(c["name"],) for c in table["cols"] if c.get("uflag")}


def gen_unique(rng, table, used_names):
    names = [c["name"] for c in table["cols"]]
    sigs = {tuple(sorted(u["cols"])) for u in table["uqs"]} | unnamed_sigs(table)
    for _ in range(6):
        k = rng.choice([1, 1, 2, 2, 3])
        cols = rng.sample(names, min(k, len(names)))
        if tuple(sorted(cols)) not in sigs:
            nm = _fresh(rng, [], used_names, "uq_%s_%s_" % (table["name"], "_".join(cols)[:12]))
            return {"name": nm, "cols": cols}
    return None


def gen_fk(rng, table, targets, used_names):
    """targets: tables that may be referenced (acyclic: earlier tables, or self)"""
    if not targets:
        return None
    ref = rng.choice(targets)
    k = min(rng.choice([1, 1, 2, 2, 3]), len(table["cols"]), len(ref["cols"]))
    cols = rng.sample([c["name"] for c in table["cols"]], k)
    refcols = rng.sample([c["name"] for c in ref["cols"]], k)
    sig = (tuple(cols), ref["name"], tuple(refcols))
    if any((tuple(f["cols"]), f["reftable"], tuple(f["refcols"])) == sig for f in table["fks"]):
        return None
    nm = _fresh(rng, [], used_names, "fk_%s_%s_" % (table["name"], ref["name"]))
    d, i = rng.choice(FK_DEFER)
    return {"name": nm, "cols": cols, "reftable": ref["name"], "refcols": refcols,
            "ondelete": rng.choice(FK_ACTIONS), "onupdate": rng.choice(FK_ACTIONS), "deferrable": d, "initially": i}


def all_names(schema):
    s = set()
    for t in schema["tables"]:
        for k in ("ixs", "uqs", "fks", "fixs"):
            for o in t.get(k, []):
                s.add(o["name"])
    return s


def gen_table(rng, name, earlier, used_names, odd=False, max_cols=6, funcs=False, computed=False, nullable_unset=False, main_schema=True,
              unnamed_uq=False):
    ncols = rng.randint(1, max_cols)
    cnames = ["id"] + rng.sample(CNAMES[1:], ncols - 1) if rng.random() < 0.8 else rng.sample(CNAMES, ncols)
    cols = []
    for i, cn in enumerate(cnames):
        pk = (cn == "id") or (i == 1 and cnames[0] == "id" and rng.random() < 0.1)
        cols.append(gen_col(rng, cn, odd, pk=pk, funcs=funcs))
    if cols[0]["pk"] and cols[0]["ty"]["fam"] in ("Integer", "BigInteger") and rng.random() < 0.3:
        cols[0]["autoinc"] = False
    if computed and rng.random() < (computed if isinstance(computed, float) else 0.35):
        # a generated column over the first column (C07: nullability of a Computed column with explicit nullable=)
        ref = cols[0]["name"]
        cols.append({"name": "gen_%s" % ref, "ty": {"fam": rng.choice(["Integer", "BigInteger", "Numeric"]), "args": []},
                     "nullable": rng.random() < 0.5, "pk": False, "default": None,
                     "computed": {"sql": "length(%s) + %d" % (ref, rng.randint(0, 9)), "ref": ref, "persisted": rng.random() < 0.5}})
        if nullable_unset and rng.random() < 0.3:
            cols[-1]["computed"]["nullable_unset"] = True
            cols[-1]["nullable"] = True
    if rng.random() < 0.12:
        # the same base type with and without a variant in one table (a variant primary key next to plain columns)
        base = rng.choice(["BigInteger", "Integer", "String"])
        args = [30] if base == "String" else []
        vt = {"BigInteger": {"fam": "Integer", "args": []}, "Integer": {"fam": "BigInteger", "args": []}, "String": {"fam": "Text", "args": []}}[base]
        cols[0]["ty"] = {"fam": base, "args": list(args), "variant": {"dialect": rng.choice(["sqlite", "sqlite", "postgresql"]), "ty": vt}}
        for c in cols[1:3]:
            if not c.get("computed"):
                c["ty"] = {"fam": base, "args": list(args)}
    t = {"name": name, "cols": cols, "uqs": [], "ixs": [], "fks": []}
    if main_schema and rng.random() < 0.1:
        t["schema"] = "main"   # the dialect's default schema spelled out
    if rng.random() < 0.2:
        t["comment"] = rng.choice(["a table", "it's", "x"])
    for c in cols:
        if not c.get("computed") and rng.random() < 0.12:
            c["comment"] = rng.choice(["note", "unit: kg", "it's"])
    for _ in range(rng.choice([0, 0, 1, 1, 2, 3])):
        ix = gen_index(rng, t, used_names)
        used_names.add(ix["name"])
        t["ixs"].append(ix)
    if unnamed_uq and rng.random() < 0.35:
        # unnamed unique constraints as context (outside the objects a change may name): Column(unique=True) or
        # UniqueConstraint(...) without name, next to the table's named indexes / uniques
        plain = [c for c in cols if not c.get("computed")]
        if rng.random() < 0.5:
            rng.choice(plain)["uflag"] = True
        else:
            t["uuqs"] = [{"cols": [c["name"] for c in rng.sample(plain, min(len(plain), rng.choice([1, 2])))]}]
    if rng.random() < 0.15:
        fx = {"name": _fresh(rng, [], used_names, "ixf_%s_" % name), "col": rng.choice(cols)["name"]}
        used_names.add(fx["name"])
        t["fixs"] = [fx]
    for _ in range(rng.choice([0, 0, 0, 1, 1, 2])):
        u = gen_unique(rng, t, used_names)
        if u:
            used_names.add(u["name"])
            t["uqs"].append(u)
    for _ in range(rng.choice([0, 0, 1, 1, 2])):
        f = gen_fk(rng, t, earlier + ([t] if rng.random() < 0.15 else []), used_names)
        if f:
            used_names.add(f["name"])
            t["fks"].append(f)
    for ix in t["ixs"]:
        if ix.get("flag"):
            for c in cols:
                if c["name"] == ix["cols"][0]:
                    c.pop("uflag", None)   # Column(index=True, unique=True) would be a unique index, not an unnamed constraint
    return t


def gen_schema(rng, odd=False, max_tables=5, max_cols=6, funcs=False, computed=False, nullable_unset=False, unnamed_uq=False):
    n = rng.randint(1, max_tables)
    names = rng.sample(TNAMES, n)
    used = set()
    tables = []
    for nm in names:
        tables.append(gen_table(rng, nm, list(tables), used, odd, max_cols, funcs, computed, nullable_unset, unnamed_uq=unnamed_uq))
    return {"tables": tables}


# --- edits (used both to derive B from A and, restricted, as the C07 mutation catalogue) -----------


def referenced_tables(schema, exclude=None):
    return {f["reftable"] for t in schema["tables"] if t["name"] != exclude for f in t["fks"]}


def col_in_use(schema, tname, cname):
    for t in schema["tables"]:
        if t["name"] == tname and any(c.get("computed") and c["computed"]["ref"] == cname for c in t["cols"]):
            return True
        if t["name"] == tname and any(f["col"] == cname for f in t.get("fixs", [])):
            return True
        if t["name"] == tname and any(cname in sig for sig in unnamed_sigs(t)):
            return True
        if t["name"] == tname:
            for o in t["ixs"] + t["uqs"] + t["fks"]:
                if cname in o["cols"]:
                    return True
        for f in t["fks"]:
            if f["reftable"] == tname and cname in f["refcols"]:
                return True
    return False


def candidate_mutations(rng, schema, odd=False, stacked=False):
    """One candidate of every mutation kind of the documented catalogue that is applicable
    to `schema` (random choice of the object).  Each is (descriptor, mutated schema)."""
    out = []
    used = all_names(schema)
    tnames = {t["name"] for t in schema["tables"]}

    def mutated(fn):
        s = copy.deepcopy(schema)
        fn(s)
        return s

    def tbl(s, name):
        return next(t for t in s["tables"] if t["name"] == name)

    # addTable
    nm = _fresh(rng, TNAMES, tnames, "t")
    nt = gen_table(rng, nm, list(schema["tables"]), set(used), odd)
    out.append(({"m": "addTable", "t": nm, "table": nt}, mutated(lambda s: s["tables"].append(nt))))
    # dropTable
    refd = referenced_tables(schema)
    cands = [t["name"] for t in schema["tables"] if t["name"] not in {f["reftable"] for u in schema["tables"] if u["name"] != t["name"] for f in u["fks"]}]
    if cands and len(schema["tables"]) > 1:
        x = rng.choice(cands)
        out.append(({"m": "dropTable", "t": x}, mutated(lambda s: s["tables"].remove(tbl(s, x)))))
    # "table removed" for a table that remaining tables still reference in the database: the model drops the table
    # together with the foreign keys pointing to it (variant: and the referencing columns, when nothing else uses them)
    refd2 = sorted({f["reftable"] for u in schema["tables"] for f in u["fks"] if f["reftable"] != u["name"]})
    if refd2:
        x2 = rng.choice(refd2)

        def only_fk_use(t, f):
            """the key's columns are used by nothing but foreign keys pointing to x2 (and are no primary key columns)"""
            for cn in f["cols"]:
                c = next(c for c in t["cols"] if c["name"] == cn)
                if c.get("pk") or c.get("uflag"):
                    return False
                others = [o for k in ("ixs", "uqs") for o in t[k]] + [g for g in t["fks"] if g["reftable"] != x2] + t.get("uuqs", []) \
                    + [{"cols": [fx["col"]]} for fx in t.get("fixs", [])] + [{"cols": [c2["computed"]["ref"]]} for c2 in t["cols"] if c2.get("computed")]
                if any(cn in o["cols"] for o in others):
                    return False
                if any(cn in g["refcols"] for u in schema["tables"] for g in u["fks"] if g["reftable"] == t["name"]):
                    return False
            return True

        refs = [(u, f) for u in schema["tables"] if u["name"] != x2 for f in u["fks"] if f["reftable"] == x2]
        drop_cols = rng.random() < 0.5 and all(only_fk_use(u, f) for u, f in refs) and \
            all(len(u["cols"]) > len({c for g in u["fks"] if g["reftable"] == x2 for c in g["cols"]}) for u, _ in refs)

        def drop_refd(s, x2=x2, drop_cols=drop_cols):
            s["tables"] = [t for t in s["tables"] if t["name"] != x2]
            for t in s["tables"]:
                gone = {c for g in t["fks"] if g["reftable"] == x2 for c in g["cols"]}
                t["fks"] = [g for g in t["fks"] if g["reftable"] != x2]
                if drop_cols:
                    t["cols"] = [c for c in t["cols"] if c["name"] not in gone]

        out.append(({"m": "dropTableRefs", "t": x2, "dropCols": drop_cols}, mutated(drop_refd)))
    t0 = rng.choice(schema["tables"])
    tn = t0["name"]
    cn_used = {c["name"] for c in t0["cols"]}
    # addColumn
    nc = gen_col(rng, _fresh(rng, CNAMES, cn_used, "c"), odd)
    if not nc["nullable"] and nc["default"] is None:
        pass  # fine in batch mode; SQLite cannot ALTER ADD a NOT NULL column without default
    out.append(({"m": "addColumn", "t": tn, "c": nc["name"], "col": nc}, mutated(lambda s: tbl(s, tn)["cols"].append(nc))))
    # a new column declared with index=True (/ unique=True): add_column + add_index (C06 pairs only, two ops)
    nc2 = gen_col(rng, _fresh(rng, CNAMES, cn_used | {nc["name"]}, "c"), odd)
    fix = {"name": flag_index_name(t0, nc2["name"]), "cols": [nc2["name"]], "unique": rng.random() < 0.4, "flag": True}
    if fix["name"] not in used:
        def add_ixcol(s, nc2=nc2, fix=fix):
            tbl(s, tn)["cols"].append(nc2)
            tbl(s, tn)["ixs"].append(fix)

        out.append(({"m": "addIndexedColumn", "t": tn, "c": nc2["name"], "col": nc2, "ix": fix}, mutated(add_ixcol)))
    # dropColumn
    free = [c["name"] for c in t0["cols"] if not col_in_use(schema, tn, c["name"])]
    if free and len(t0["cols"]) > 1:
        x = rng.choice(free)
        out.append(({"m": "dropColumn", "t": tn, "c": x}, mutated(lambda s: tbl(s, tn)["cols"].remove(next(c for c in tbl(s, tn)["cols"] if c["name"] == x)))))
    # flipNullable
    c0 = rng.choice(t0["cols"])

    def flip(s):
        c = next(c for c in tbl(s, tn)["cols"] if c["name"] == c0["name"])
        c["nullable"] = not c["nullable"]

    out.append(({"m": "flipNullable", "t": tn, "c": c0["name"]}, mutated(flip)))
    for cg in [c for c in t0["cols"] if c.get("computed")]:
        def flipg(s, cg=cg):
            c = next(c for c in tbl(s, tn)["cols"] if c["name"] == cg["name"])
            c["nullable"] = not c["nullable"]

        out.append(({"m": "flipNullable", "t": tn, "c": cg["name"]}, mutated(flipg)))
    # changeType
    c1 = rng.choice(t0["cols"])
    nty = gen_type(rng, odd)

    def chty(s):
        next(c for c in tbl(s, tn)["cols"] if c["name"] == c1["name"])["ty"] = nty

    out.append(({"m": "changeType", "t": tn, "c": c1["name"], "ty": nty}, mutated(chty)))
    # near-miss type edits (C06 pairs only, not catalogue mutations of C07): same family with other arguments
    # (VARCHAR(10) -> VARCHAR(20), NUMERIC(10, 2) -> NUMERIC(12, 2)) and the NUMERIC / DECIMAL synonym pair
    cands = [c for c in t0["cols"] if c["ty"]["args"] and c["ty"]["fam"] not in ("Enum",) and not c.get("pk") and not c["ty"].get("variant")]
    if cands:
        c3 = rng.choice(cands)
        nty3 = copy.deepcopy(c3["ty"])
        if c3["ty"]["fam"] in ("Numeric", "NUMERIC", "DECIMAL") and rng.random() < 0.5:
            nty3["fam"] = {"Numeric": "DECIMAL", "NUMERIC": "DECIMAL", "DECIMAL": "NUMERIC"}[c3["ty"]["fam"]]
        else:
            nty3["args"] = [nty3["args"][0] + rng.choice([1, 7, 100])] + nty3["args"][1:]

        def chty3(s, c3=c3, nty3=nty3):
            next(c for c in tbl(s, tn)["cols"] if c["name"] == c3["name"])["ty"] = nty3

        out.append(({"m": "changeTypeArgs", "t": tn, "c": c3["name"], "ty": nty3}, mutated(chty3)))
    # a named unique constraint replaced by a (unique) index of the same name and vice versa (C06 pairs only)
    if t0["uqs"] and rng.random() < 0.5:
        u9 = rng.choice(t0["uqs"])

        def swap_u(s, u9=u9):
            t = tbl(s, tn)
            t["uqs"] = [u for u in t["uqs"] if u["name"] != u9["name"]]
            t["ixs"].append({"name": u9["name"], "cols": list(u9["cols"]), "unique": True})

        out.append(({"m": "swapNamedKind", "t": tn, "n": u9["name"], "to": "index"}, mutated(swap_u)))
    elif t0["ixs"]:
        i9 = rng.choice(t0["ixs"])
        if tuple(sorted(i9["cols"])) not in {tuple(sorted(u["cols"])) for u in t0["uqs"]}:
            def swap_i(s, i9=i9):
                t = tbl(s, tn)
                t["ixs"] = [i for i in t["ixs"] if i["name"] != i9["name"]]
                t["uqs"].append({"name": i9["name"], "cols": list(i9["cols"])})

            out.append(({"m": "swapNamedKind", "t": tn, "n": i9["name"], "to": "unique"}, mutated(swap_i)))
    # changeDefault
    c2 = rng.choice([c for c in t0["cols"] if not c.get("computed")])   # a Computed column has no plain server default
    nd = gen_default(rng, odd)

    def chd(s):
        next(c for c in tbl(s, tn)["cols"] if c["name"] == c2["name"])["default"] = nd

    out.append(({"m": "changeDefault", "t": tn, "c": c2["name"], "default": nd}, mutated(chd)))
    # near-miss default changes: only the letter case (or one character) of a string value / of a quoted literal inside
    # an expression differs ('Pending' -> 'pending'); string values are compared exactly
    def _case_variant(d):
        if d is None or d["kind"] not in ("str", "expr"):
            return None
        v = d["v"]
        if d["kind"] == "expr":
            import re as _re
            m = _re.match(r"^(\(?')([^']*[A-Za-z][^']*)('\)?)$", v)   # 'abc' or ('abc'): case is kept inside the literal
            if not m:
                return None
            body = m.group(2)
            nb = rng.choice([body.upper(), body.lower(), body.swapcase(), body.capitalize()])
            return None if nb == body else {"kind": "expr", "v": m.group(1) + nb + m.group(3)}
        if not any(ch.isalpha() for ch in v):
            return None
        nv = rng.choice([v.upper(), v.lower(), v.swapcase(), v.capitalize()])
        return None if nv == v else {"kind": "str", "v": nv}

    cands = [(c, _case_variant(c.get("default"))) for c in t0["cols"] if not c.get("computed")]
    cands = [(c, v) for c, v in cands if v is not None]
    if cands:
        c4, nd4 = rng.choice(cands)

        def chd4(s, c4=c4, nd4=nd4):
            next(c for c in tbl(s, tn)["cols"] if c["name"] == c4["name"])["default"] = nd4

        out.append(({"m": "changeDefault", "t": tn, "c": c4["name"], "default": nd4}, mutated(chd4)))
    # addIndex
    ix = gen_index(rng, t0, set(used))
    out.append(({"m": "addIndex", "t": tn, "n": ix["name"], "ix": ix}, mutated(lambda s: tbl(s, tn)["ixs"].append(ix))))
    if stacked:
        # an added index whose first column carries ordering modifiers - one (control) or two stacked ones
        # (col.desc().nulls_last(), col.asc().nulls_first()); such an index is only compared, never created (C07)
        ix2 = gen_index(rng, t0, set(used) | {ix["name"]})
        ix2.pop("flag", None)
        if ix2["name"].startswith("ix_%s_%s" % (tn, ix2["cols"][0])) and "_" not in ix2["name"][len("ix_%s_%s" % (tn, ix2["cols"][0])):]:
            ix2["name"] = _fresh(rng, [], set(used) | {ix["name"]}, "ix_%s_mod_" % tn)
        ix2["desc"] = rng.choice([True, "desc_nulls_last", "asc_nulls_first", "desc_nulls_last"])
        out.append(({"m": "addIndex", "t": tn, "n": ix2["name"], "ix": ix2}, mutated(lambda s: tbl(s, tn)["ixs"].append(ix2))))
    if t0["ixs"]:
        ix0 = rng.choice(t0["ixs"])
        out.append(({"m": "dropIndex", "t": tn, "n": ix0["name"]}, mutated(lambda s: tbl(s, tn)["ixs"].remove(next(i for i in tbl(s, tn)["ixs"] if i["name"] == ix0["name"])))))
        ix1 = rng.choice(t0["ixs"])
        if rng.random() < 0.5:
            newcols, newu = ix1["cols"], not ix1["unique"]
        else:
            newu = ix1["unique"]
            r = rng.random()
            alt = [c["name"] for c in t0["cols"] if c["name"] not in ix1["cols"]]
            if r < 0.35 and len(ix1["cols"]) >= 2:
                newcols = list(reversed(ix1["cols"]))            # same columns, other order
            elif r < 0.7 and alt:
                newcols = ix1["cols"][:-1] + [rng.choice(alt)]   # last column replaced
            else:
                newcols = gen_index(rng, t0, set(used))["cols"]

        def chix(s):
            i = next(i for i in tbl(s, tn)["ixs"] if i["name"] == ix1["name"])
            i["cols"], i["unique"] = newcols, newu

        if (newcols, newu) != (ix1["cols"], ix1["unique"]):
            out.append(({"m": "changeIndex", "t": tn, "n": ix1["name"], "cols": newcols, "unique": newu}, mutated(chix)))
    # uniques
    u = gen_unique(rng, t0, set(used))
    if u:
        out.append(({"m": "addUnique", "t": tn, "n": u["name"], "uq": u}, mutated(lambda s: tbl(s, tn)["uqs"].append(u))))
    if t0["uqs"]:
        u0 = rng.choice(t0["uqs"])
        out.append(({"m": "dropUnique", "t": tn, "n": u0["name"]}, mutated(lambda s: tbl(s, tn)["uqs"].remove(next(i for i in tbl(s, tn)["uqs"] if i["name"] == u0["name"])))))
        u1 = rng.choice(t0["uqs"])
        others = dict(t0)
        others["uqs"] = [x for x in t0["uqs"]]
        nu = gen_unique(rng, others, set(used))
        if nu:
            def chu(s):
                next(i for i in tbl(s, tn)["uqs"] if i["name"] == u1["name"])["cols"] = nu["cols"]

            out.append(({"m": "changeUnique", "t": tn, "n": u1["name"], "cols": nu["cols"]}, mutated(chu)))
    # fks
    idx = schema["tables"].index(t0)
    f = gen_fk(rng, t0, schema["tables"][:idx], set(used))
    if t0["fks"] and rng.random() < 0.6:
        # near miss: an existing key with one referred (or one local) column replaced
        f0 = rng.choice(t0["fks"])
        ref = next((t for t in schema["tables"] if t["name"] == f0["reftable"]), None)
        if ref is not None:
            v = copy.deepcopy(f0)
            v["name"] = _fresh(rng, [], set(used), "fk_%s_%s_v" % (tn, ref["name"]))
            r = rng.random()
            if r < 0.5:
                alt = [c["name"] for c in ref["cols"] if c["name"] not in f0["refcols"]]
                if alt:
                    v["refcols"] = f0["refcols"][:-1] + [rng.choice(alt)]
            elif r < 0.8:
                alt = [c["name"] for c in t0["cols"] if c["name"] not in f0["cols"]]
                if alt:
                    v["cols"] = f0["cols"][:-1] + [rng.choice(alt)]
            else:
                # same columns, another ON DELETE / ON UPDATE action: the key is *replaced* (a second key on the same
                # columns would leave the property's class); not a catalogue mutation of C07, used for C06 pairs only
                if rng.random() < 0.5:
                    k = rng.choice(["ondelete", "onupdate"])
                    upd = {k: rng.choice([a for a in ("CASCADE", "SET NULL", "RESTRICT") if a != f0.get(k)])}
                else:
                    d, i = rng.choice([x for x in FK_DEFER if x != (f0.get("deferrable"), f0.get("initially"))])
                    upd = {"deferrable": d, "initially": i}

                def chopt(s, upd=upd, nm=f0["name"]):
                    next(i for i in tbl(s, tn)["fks"] if i["name"] == nm).update(upd)

                out.append(({"m": "changeFKOptions", "t": tn, "n": f0["name"], **upd}, mutated(chopt)))
                v = None
            sig = lambda x: (tuple(x["cols"]), x["reftable"], tuple(x["refcols"]))
            if v is not None and all(sig(v) != sig(x) for x in t0["fks"]):
                f = v
    if f:
        out.append(({"m": "addFK", "t": tn, "n": f["name"], "fk": f}, mutated(lambda s: tbl(s, tn)["fks"].append(f))))
    if t0["fks"]:
        f0 = rng.choice(t0["fks"])
        out.append(({"m": "dropFK", "t": tn, "n": f0["name"]}, mutated(lambda s: tbl(s, tn)["fks"].remove(next(i for i in tbl(s, tn)["fks"] if i["name"] == f0["name"])))))
    return out


def gen_pair(rng, odd=False, max_tables=5, max_cols=6, funcs=False, computed=False):
    a = gen_schema(rng, odd, max_tables, max_cols, funcs, computed, nullable_unset=bool(computed))
    r = rng.random()
    if r < 0.15:
        b = gen_schema(rng, odd, max_tables, max_cols, funcs, computed, nullable_unset=bool(computed))
        # avoid cross-schema name clashes of constraint names on different tables (index names are global in SQLite)
        rename = {}
        an = all_names(a)
        for t in b["tables"]:
            for k in ("ixs", "uqs", "fks", "fixs"):
                for o in t.get(k, []):
                    if o["name"] in an:
                        o["name"] = o["name"] + "b"
        return a, b
    b = copy.deepcopy(a)
    for _ in range(rng.choice([0, 1, 1, 2, 2, 3, 4, 6])):
        cands = [x for x in candidate_mutations(rng, b, odd) if x[0]["m"] != "dropTableRefs"]   # (outside C06's pair class)
        d, nb = rng.choice(cands)
        if wf_pair_step(b, nb):
            b = nb
    return a, b


def wf_pair_step(b, nb):
    return True


# --- the class the theorems quantify over -------------------------------------------------------------


def str_plain(v):
    return v != "" and "'" not in v and "\n" not in v and not (len(v) >= 3 and v[0] == "(" and v[-1] == ")")


def trimmed(v):
    return v == v.strip(" \t\n\r")


def expr_plain(v):
    if "\n" in v or not trimmed(v) or v == "":
        return False
    if len(v) >= 3 and v[0] == "(" and v[-1] == ")":
        m = v[1:-1]
        if not trimmed(m) or m == "" or (len(m) >= 3 and m[0] == "(" and m[-1] == ")"):
            return False
    return True


def expr_quoted_looking(v):
    """an expression default whose *stored* form (outer parentheses removed by SQLite) begins and ends with a
    single quote without being one string literal, e.g. ('a' || 'b'): `_guess_if_default_is_unparenthesized_sql_expr`
    takes the stored text for a literal and batch recreate re-emits it without parentheses"""
    e = v.strip(" \t\n\r")
    if len(e) >= 2 and e[0] == "(" and e[-1] == ")":
        e = e[1:-1].strip(" \t\n\r")
    if len(e) >= 3 and e[0] == "'" and e[-1] == "'":
        return "'" in e[1:-1].replace("''", "")
    return False


def default_plain(d):
    if d is None:
        return True
    if d["kind"] == "func":
        return True
    return str_plain(d["v"]) if d["kind"] == "str" else expr_plain(d["v"])


def schema_wf(schema):
    """the property's class for one schema: no two unique constraints / foreign keys of a table with
    the same column signature, constraint names distinct per table"""
    for t in schema["tables"]:
        fsigs = [(tuple(f["cols"]), f["reftable"], tuple(f["refcols"])) for f in t["fks"]]
        usigs = [tuple(sorted(u["cols"])) for u in t["uqs"]] + sorted(unnamed_sigs(t))
        names = [o["name"] for k in ("ixs", "uqs", "fks") for o in t[k]]
        if len(set(fsigs)) != len(fsigs) or len(set(usigs)) != len(usigs) or len(set(names)) != len(names):
            return False
    return True


def schema_flags(schema):
    """which parts of the class a schema leaves: returns a set of tags (empty = inside the proved class)"""
    import re
    tags = set()
    if not schema_wf(schema):
        tags.add("constraints-same-signature")
    with_schema = {t["name"] for t in schema["tables"] if t.get("schema")}
    if any(f for t in schema["tables"] for f in t["fks"] if t["name"] in with_schema or f["reftable"] in with_schema):
        tags.add("fk-default-schema")   # see known finding C06-MAINFK: judged by the implementation-side oracle only
    for t in schema["tables"]:
        for c in t["cols"]:
            if c.get("computed") and c["computed"].get("nullable_unset"):
                # (tables with Computed columns are inside the class again since the batch copy was repaired, 24f0c6a)
                tags.add("computed-nullable-unset")
            d = c.get("default")
            if d is not None and d["kind"] == "func":
                tags.add("default-func")
            elif d is not None:
                if d["kind"] == "expr" and expr_quoted_looking(d["v"]):
                    tags.add("default-expr-quotedlooking")
                if not default_plain(d):
                    tags.add("default-str-nonplain" if d["kind"] == "str" else "default-expr-nonplain")
                if re.search(r"(?<![:\w\x5c]):(\w+)(?!:)", d["v"]):
                    tags.add("default-bindlike")
            if effective_ty(c["ty"])["fam"] in UNREFLECTABLE:
                tags.add("type-not-reflectable")
            if c["ty"]["fam"] == "Enum" and (c["ty"].get("variant") or {}).get("dialect") == "sqlite":
                tags.add("enum-with-sqlite-variant")   # known finding C06-ENUMVAR: create_table loses the variant
    return tags


# --- a small fixed battery (C06): paths the random edits reach too rarely in the quick tier ---------------


def _c(name, fam, args=(), nullable=True, pk=False, default=None, **kw):
    c = {"name": name, "ty": {"fam": fam, "args": list(args)}, "nullable": nullable, "pk": pk, "default": default}
    c.update(kw)
    return c


def battery_pairs():
    """(label, A, B): same-family argument change, NUMERIC/DECIMAL synonym, and the Computed-column corner cases
    (nullable unset, expression text changed, computed <-> plain)"""
    def sch(*cols, **kw):
        return {"tables": [{"name": "bt", "cols": [_c("id", "Integer", nullable=False, pk=True)] + list(cols), "uqs": [], "ixs": [], "fks": [], **kw}]}

    comp = lambda sql="length(a) + 1", **kw: _c("g", "Integer", computed={"sql": sql, "ref": "a", "persisted": False, **kw.pop("c", {})}, **kw)
    a_col = _c("a", "String", [10])
    return [
        ("varchar-length", sch(_c("a", "String", [10])), sch(_c("a", "String", [20]))),
        ("numeric-scale", sch(_c("a", "Numeric", [10, 2])), sch(_c("a", "Numeric", [10, 4]))),
        ("numeric-decimal-synonym", sch(_c("a", "Numeric", [10, 2])), sch(_c("a", "DECIMAL", [10, 2]))),
        ("decimal-numeric-synonym", sch(_c("a", "DECIMAL", [12, 3])), sch(_c("a", "NUMERIC", [12, 3]))),
        ("computed-nullable-unset", sch(a_col, comp(nullable=False)), sch(a_col, comp(nullable=True, c={"nullable_unset": True}))),
        ("computed-sql-changed", sch(a_col, comp()), sch(a_col, comp("length(a) + 2"))),
        ("computed-to-plain", sch(a_col, comp()), sch(a_col, _c("g", "Integer"))),
        ("plain-to-computed", sch(a_col, _c("g", "Integer")), sch(a_col, comp())),
        ("add-stored-computed", sch(a_col), sch(a_col, comp(c={"persisted": True}))),
    ] + _variant_battery()


def _variant_battery():
    """the same base type with and without with_variant() in one rendered migration"""
    big = {"fam": "BigInteger", "args": []}
    big_v = {"fam": "BigInteger", "args": [], "variant": {"dialect": "sqlite", "ty": {"fam": "Integer", "args": []}}}
    big_pg = {"fam": "BigInteger", "args": [], "variant": {"dialect": "postgresql", "ty": {"fam": "Integer", "args": []}}}
    col = lambda n, ty, **kw: {"name": n, "ty": copy.deepcopy(ty), "nullable": kw.get("nullable", True), "pk": kw.get("pk", False), "default": None}
    tab = lambda n, *cols, **kw: {"name": n, "cols": list(cols), "uqs": [], "ixs": [], "fks": [], **kw}
    base = tab("bt", col("id", {"fam": "Integer", "args": []}, pk=True, nullable=False))
    out = []
    for label, v in (("sqlite", big_v), ("other-dialect", big_pg)):
        out.append(("variant-new-table-" + label, {"tables": [base]},
                    {"tables": [base, tab("vt", col("id", v, pk=True, nullable=False), col("n", big), col("m", big, nullable=False))]}))
        out.append(("plain-then-variant-" + label, {"tables": [base]},
                    {"tables": [base, tab("vt", col("id", {"fam": "Integer", "args": []}, pk=True, nullable=False), col("n", big), col("m", v))]}))
        out.append(("variant-add-columns-" + label, {"tables": [tab("bt", base["cols"][0], col("k", v))]},
                    {"tables": [tab("bt", base["cols"][0], col("k", v), col("n", big), col("m", v))]}))
    out.append(("main-schema-table", {"tables": [tab("bt", base["cols"][0], col("a", {"fam": "String", "args": [10]}), schema="main")]},
                {"tables": [tab("bt", base["cols"][0], col("a", {"fam": "String", "args": [20]}, nullable=False), col("n", big), schema="main")]}))
    return out
