"""Op generator, canonicalisers and SQL oracle for C09 (reverse of migration operations).

Python op objects of alembic.operations.ops are canonicalised into the JSON vocabulary of
Model.Reverse.Op, always through what `Operations.invoke` reads of them (`to_table()`,
`to_index()`, `to_constraint()`, `to_column()` plus the op-level flags).
"""
from __future__ import annotations

import io
import json
import re
import warnings

import sqlalchemy as sa
from sqlalchemy.sql.elements import TextClause

from alembic.operations import Operations
from alembic.operations import ops
from alembic.runtime.migration import MigrationContext

DIALECTS = ["sqlite", "postgresql", "mysql", "mssql", "oracle"]
TYPES = {"INTEGER": sa.Integer, "VARCHAR(10)": lambda: sa.String(10), "VARCHAR(20)": lambda: sa.String(20),
         "BOOLEAN": sa.Boolean, "NUMERIC(8, 2)": lambda: sa.Numeric(8, 2)}


# ------------------------------------------------------------------ canonical forms

def ty_str(t):
    if t is None:
        return None
    if isinstance(t, type):
        t = t()
    return str(t.compile(dialect=sa.engine.default.DefaultDialect())) if not isinstance(t, sa.types.NullType) else "NULLTYPE"


def default_str(sd):
    if sd is None or sd is False:
        return sd
    arg = getattr(sd, "arg", sd)
    if isinstance(arg, TextClause):
        return arg.text
    return str(arg)


def name_or_none(n):
    if n is None or type(n).__name__ == "_NoneName":
        return None
    return str(n)


def col_json(c):
    return {"name": c.name, "ty": ty_str(c.type), "nullable": bool(c.nullable),
            "default": default_str(c.server_default), "comment": c.comment}


def cons_json(c):
    from alembic.util import sqla_compat
    tb = sqla_compat._table_for_constraint(c)
    vn = c.__visit_name__
    if vn == "unique_constraint":
        kind, body = "unique", ",".join(col.name for col in c.columns)
    elif vn == "foreign_key_constraint":
        kind = "foreignkey"
        el = c.elements
        body = "%s>%s|%s|%s|%s|%s" % (",".join(c.column_keys), ",".join(e.target_fullname for e in el), c.onupdate, c.ondelete,
                                      c.match, bool(c.use_alter))
    elif vn == "primary_key_constraint":
        kind, body = "primary", ",".join(col.name for col in c.columns)
    else:
        kind, body = "check", str(c.sqltext)
    ref_schema = None
    if vn == "foreign_key_constraint":
        # referent_schema: what the target specification says ("s3.other.id" -> "s3")
        parts = c.elements[0].target_fullname.split(".")
        ref_schema = ".".join(parts[:-2]) if len(parts) > 2 else None
    return {"kind": kind, "name": name_or_none(c.name), "table": tb.name, "schema": tb.schema, "body": body,
            "deferrable": c.deferrable, "initially": c.initially, "refSchema": ref_schema}


def kw_json(kw):
    # `unique` arrives as 0/1 from SQLite reflection: it is a truth value
    return sorted([[str(k), str(bool(v)) if k == "unique" else str(v)] for k, v in (kw or {}).items()])


def index_json(ix):
    return {"name": name_or_none(ix.name), "table": ix.table.name, "schema": ix.table.schema,
            "cols": [getattr(e, "name", str(e)) for e in ix.expressions], "unique": bool(ix.unique),
            "kw": kw_json(dict(ix.kwargs))}


def extra_str(kw, prefixes, info):
    return json.dumps([kw_json(kw), list(prefixes or []), kw_json(info or {})])


def table_json(t):
    # the implicit, empty PrimaryKeyConstraint every sqlalchemy.Table owns is not part of the op
    cons = [cons_json(c) for c in t.constraints
            if not (c.__visit_name__ == "primary_key_constraint" and len(c.columns) == 0)]
    cons.sort(key=lambda c: json.dumps(c, sort_keys=True))
    # indexes the table owns (derived from Column(index=True) flags): impl.create_table emits them
    ixs = sorted("%s|%s|%s" % (name_or_none(ix.name), ",".join(getattr(e, "name", str(e)) for e in ix.expressions), bool(ix.unique))
                 for ix in t.indexes)
    return {"name": t.name, "schema": t.schema, "cols": [col_json(c) for c in t.c], "cons": cons,
            "comment": t.comment, "extra": extra_str(dict(t.kwargs), t._prefixes, t.info), "ixs": ixs}


TYPE_NAMES = {"unique": "unique", "foreignkey": "foreignkey", "check": "check", "primary": "primary"}


def tri(v):
    """False -> false (unset), None -> null, value -> string"""
    if v is False:
        return False
    if v is None:
        return None
    return default_str(v) if not isinstance(v, str) else v


def op_json(op):
    if isinstance(op, ops.ModifyTableOps):
        return {"k": "modifyTable", "table": op.table_name, "schema": op.schema, "ops": [op_json(o) for o in op.ops]}
    if isinstance(op, ops.CreateTableOp):
        return {"k": "createTable", "t": table_json(op.to_table()), "ine": op.if_not_exists}
    if isinstance(op, ops.DropTableOp):
        return {"k": "dropTable", "name": op.table_name, "schema": op.schema, "ie": op.if_exists, "comment": op.comment,
                "extra": extra_str(op.table_kw, op.prefixes, op.info),
                "rev": table_json(op._reverse.to_table()) if op._reverse is not None else None}
    if isinstance(op, ops.AddColumnOp):
        return {"k": "addColumn", "table": op.table_name, "schema": op.schema, "col": col_json(op.column), "kw": kw_json(op.kw)}
    if isinstance(op, ops.DropColumnOp):
        return {"k": "dropColumn", "table": op.table_name, "schema": op.schema, "column": op.column_name, "kw": kw_json(op.kw),
                "rev": col_json(op._reverse.column) if op._reverse is not None else None}
    if isinstance(op, ops.CreateIndexOp):
        return {"k": "createIndex", "ix": index_json(op.to_index()), "ine": op.if_not_exists}
    if isinstance(op, ops.DropIndexOp):
        return {"k": "dropIndex", "name": name_or_none(op.index_name), "table": op.table_name, "schema": op.schema,
                "ie": op.if_exists, "kw": kw_json(op.kw),
                "rev": index_json(op._reverse.to_index()) if op._reverse is not None else None}
    if isinstance(op, ops.AddConstraintOp):
        return {"k": "addConstraint", "c": cons_json(op.to_constraint())}
    if isinstance(op, ops.DropConstraintOp):
        return {"k": "dropConstraint", "name": name_or_none(op.constraint_name), "table": op.table_name, "schema": op.schema,
                "ty": TYPE_NAMES.get(op.constraint_type),
                "rev": cons_json(op._reverse.to_constraint()) if op._reverse is not None else None}
    if isinstance(op, ops.AlterColumnOp):
        return {"k": "alterColumn", "a": {
            "table": op.table_name, "column": op.column_name, "schema": op.schema,
            "eT": ty_str(op.existing_type), "eN": op.existing_nullable, "eD": tri(op.existing_server_default),
            "eC": op.existing_comment, "mT": ty_str(op.modify_type), "mN": op.modify_nullable,
            "mD": tri(op.modify_server_default), "mC": tri(op.modify_comment), "mName": op.modify_name,
            "kw": kw_json(op.kw)}}
    if isinstance(op, ops.CreateTableCommentOp):
        return {"k": "createTableComment", "table": op.table_name, "schema": op.schema, "comment": op.comment,
                "existing": op.existing_comment}
    if isinstance(op, ops.DropTableCommentOp):
        return {"k": "dropTableComment", "table": op.table_name, "schema": op.schema, "existing": op.existing_comment}
    return {"k": "other:" + type(op).__name__}


def norm(j):
    """order-insensitive parts (kw lists, constraint sets) sorted; applied to both sides"""
    if isinstance(j, dict):
        out = {}
        for k, v in j.items():
            v = norm(v)
            if k in ("kw", "cons") and isinstance(v, list):
                v = sorted(v, key=lambda x: json.dumps(x, sort_keys=True))
            out[k] = v
        return out
    if isinstance(j, list):
        return [norm(x) for x in j]
    return j


def view_json(op):
    """Python twin of Spec.Reverse.view on canonical JSON"""
    j = op_json(op)
    return norm(view_of(j))


def view_of(j):
    k = j.get("k")
    if k == "dropTable":
        rev = j["rev"] or {}
        t = {"name": j["name"], "schema": j["schema"], "cols": rev.get("cols", []), "cons": rev.get("cons", []),
             "comment": j["comment"], "extra": j["extra"], "ixs": rev.get("ixs", [])}
        return {**j, "rev": t}
    if k == "dropColumn":
        c = j["rev"] or {"name": j["column"], "ty": "NULLTYPE", "nullable": True, "default": None, "comment": None}
        # `column` stays op.column_name: the attribute the renderer and op.drop_column() use
        return {**j, "rev": c}
    if k == "dropIndex":
        kw = dict((a, b) for a, b in j["kw"])
        unique = kw.get("unique") == "True"
        ix = {"name": j["name"], "table": j["table"], "schema": j["schema"],
              "cols": (j["rev"] or {"cols": ["x"]})["cols"], "unique": unique,
              "kw": [[a, b] for a, b in j["kw"] if a != "unique"]}
        return {**j, "kw": [["unique", "True" if unique else "False"]], "rev": ix}
    if k == "dropConstraint":
        return {**j, "rev": None}
    if k == "modifyTable":
        return {**j, "ops": [view_of(o) for o in j["ops"]]}
    return j


# ------------------------------------------------------------------ SQL per dialect

NAMING = {"ix": "ix_%(column_0_label)s", "uq": "uq_%(table_name)s_%(column_0_name)s", "ck": "ck_%(table_name)s_%(constraint_name)s",
          "fk": "fk_%(table_name)s_%(column_0_name)s_%(referred_table_name)s", "pk": "pk_%(table_name)s"}
# the five dialects, plus one context whose target_metadata carries a naming convention (SchemaObjects.metadata
# then builds every to_table()/to_constraint() object under that convention)
SQL_CONTEXTS = DIALECTS + ["postgresql+naming_convention"]


def sql_of(op, dialect):
    """DDL text (or ERR:<class>) of invoking `op` offline; memoised on the op object (ops are not mutated after generation)"""
    memo = op.__dict__.setdefault("_verif_sql", {}) if hasattr(op, "__dict__") else {}
    if dialect not in memo:
        memo[dialect] = _sql_of(op, dialect)
    return memo[dialect]


def _sql_of(op, dialect):
    buf = io.StringIO()
    opts = {"as_sql": True, "output_buffer": buf}
    if dialect.endswith("+naming_convention"):
        dialect = dialect.split("+")[0]
        opts["target_metadata"] = sa.MetaData(naming_convention=NAMING)
    ctx = MigrationContext.configure(dialect_name=dialect, opts=opts)
    with warnings.catch_warnings():
        warnings.simplefilter("ignore")
        try:
            o = Operations(ctx)
            if isinstance(op, ops.ModifyTableOps):
                for c in op.ops:
                    o.invoke(c)
            else:
                o.invoke(op)
        except Exception as e:
            return "ERR:" + type(e).__name__
    return canon_sql(buf.getvalue())


def canon_sql(text):
    """CREATE TABLE lists its inline constraints in creation order of the Python objects, which a
    from_table/to_table round trip permutes (Table.constraints is a set): clause order inside
    CREATE TABLE (...) is not part of "the same DDL" - the clause lines are sorted."""
    out = []
    for stmt in text.split("\n\n"):
        if re.match(r"\s*CREATE (\w+ )*TABLE ", stmt) and "(\n" in stmt and "\n)" in stmt:
            head, rest = stmt.split("(\n", 1)
            if "\n)" not in rest:          # a table without columns: nothing to sort
                out.append(stmt)
                continue
            body, tail = rest.rsplit("\n)", 1)
            lines = sorted(l.strip().rstrip(",") for l in body.split("\n"))
            stmt = head + "(\n" + "\n".join(lines) + "\n)" + tail
        out.append(stmt)
    return "\n\n".join(out)


# ------------------------------------------------------------------ op generation

TABLES = ["t", "acct", "Order Items"]
COLS = ["a", "b", "c", "id", "x y"]
SCHEMAS = [None, None, "s2"]


def gen_column(rng, name=None):
    ty = rng.choice(list(TYPES))
    kw = {}
    if rng.random() < 0.3:
        kw["server_default"] = rng.choice(["0", "'x'", sa.text("1")])
    if rng.random() < 0.2:
        kw["comment"] = rng.choice(["note", "it's"])
    name = name or rng.choice(COLS)
    if rng.random() < 0.2:
        # what declarative models produce when the attribute is not called like the column: Column.key != Column.name
        kw["key"] = "k_" + name.replace(" ", "_")
    return sa.Column(name, TYPES[ty](), nullable=rng.random() < 0.6, **kw)


def gen_table(rng, with_cons=True):
    md = sa.MetaData()
    n = rng.choice(TABLES)
    names = rng.sample(COLS, rng.randint(1, 4))
    cols = [gen_column(rng, c) for c in names]
    if rng.random() < 0.5:
        cols[0] = sa.Column(names[0], sa.Integer, primary_key=True)
    args = list(cols)
    keyof = {c.name: c.key for c in cols}          # string references in constraints go by Column.key
    if with_cons and rng.random() < 0.4:
        args.append(sa.UniqueConstraint(*[keyof[n_] for n_ in rng.sample(names, min(len(names), rng.choice([1, 2])))],
                                        name=rng.choice([None, "uq_1"])))
    if with_cons and rng.random() < 0.3:
        args.append(sa.CheckConstraint("%s > 0" % sa.sql.quoted_name(names[0], True) if " " not in names[0] else "1 = 1", name=rng.choice([None, "ck_1"])))
    if with_cons and rng.random() < 0.3:
        fsch = rng.choice([None, None, "s3"])      # schema-qualified referent: "s3.other.id"
        args.append(sa.ForeignKeyConstraint([keyof[names[-1]]], ["%sother.id" % (fsch + "." if fsch else "")],
                                            name=rng.choice([None, "fk_1"]), ondelete=rng.choice([None, "CASCADE"]),
                                            match=rng.choice([None, None, "FULL"]), initially=rng.choice([None, None, "DEFERRED"])))
        sa.Table("other", md, sa.Column("id", sa.Integer, primary_key=True), schema=fsch)
    kw = gen_table_kw(rng)
    if len(names) >= 2 and rng.random() < 0.3:
        # composite primary key whose written order differs from the declaration order: PRIMARY KEY (b, a) over a, b[, c]
        k = rng.choice([2, 2, 3]) if len(names) >= 3 else 2
        pk = list(reversed(names[:k])) if rng.random() < 0.6 else rng.sample(names, k)
        for i, c in enumerate(cols):
            if c.primary_key or c.name in pk:
                args[i] = cols[i] = sa.Column(c.name, sa.Integer if c.name == pk[0] else c.type, nullable=False, key=c.key)
        args.append(sa.PrimaryKeyConstraint(*[keyof[n_] for n_ in pk], name=rng.choice([None, None, "pk_1"])))
    if kw.get("sqlite_with_rowid") is False and not any(c.primary_key for c in cols) \
            and not any(isinstance(a, sa.PrimaryKeyConstraint) for a in args):
        args[0] = cols[0] = sa.Column(names[0], sa.Integer, primary_key=True, key=cols[0].key)   # WITHOUT ROWID needs a primary key
    t = sa.Table(n, md, *args, schema=rng.choice(SCHEMAS), **kw)
    return t


def ro_name(n):
    return None if n is None or type(n).__name__ == "_NoneName" else str(n)


def gen_table_kw(rng):
    """table-level options, truthy and falsy values: dialect kwargs, comment, prefixes, info"""
    kw = {}
    if rng.random() < 0.35:
        kw["sqlite_with_rowid"] = rng.random() < 0.35          # False => WITHOUT ROWID
    if rng.random() < 0.15:
        kw["sqlite_strict"] = rng.random() < 0.6
    if rng.random() < 0.2:
        kw["mysql_engine"] = rng.choice(["InnoDB", "MyISAM", ""])
    if rng.random() < 0.1:
        kw["postgresql_partition_by"] = rng.choice(["RANGE (id)", ""])
    if rng.random() < 0.25:
        kw["comment"] = rng.choice(["tbl", "it's", ""])
    if rng.random() < 0.15:
        kw["prefixes"] = rng.choice([["TEMPORARY"], []])
    if rng.random() < 0.15:
        kw["info"] = rng.choice([{"owner": "x"}, {}, {"flag": False}])
    return kw


def gen_alter(rng, lossy):
    kw = {}
    attrs = rng.sample(["type", "nullable", "default", "comment"], rng.randint(1, 3))
    complete = rng.random() < 0.85
    if "type" in attrs:
        kw["modify_type"] = TYPES[rng.choice(list(TYPES))]()
    if "type" in attrs and complete or rng.random() < 0.7:
        kw["existing_type"] = TYPES[rng.choice(list(TYPES))]()
    if "nullable" in attrs:
        kw["modify_nullable"] = rng.random() < 0.5
    if "nullable" in attrs and complete or rng.random() < 0.5:
        kw["existing_nullable"] = rng.random() < 0.5
    if "default" in attrs:
        kw["modify_server_default"] = rng.choice([None, "5", "'z'"])
    if "default" in attrs and complete or rng.random() < 0.3:
        kw["existing_server_default"] = rng.choice([None, "0", "'x'"])
    if "comment" in attrs:
        kw["modify_comment"] = rng.choice([None, "new"])
        if rng.random() < 0.6:
            kw["existing_comment"] = rng.choice(["old", "it's"])
    if lossy and rng.random() < 0.5:
        kw["modify_name"] = rng.choice(["renamed", "New Name"])
    if rng.random() < 0.2:
        kw["autoincrement"] = rng.random() < 0.5
    return ops.AlterColumnOp(rng.choice(TABLES), rng.choice(COLS), schema=rng.choice(SCHEMAS), **kw)


def gen_leaf(rng, lossy_p=0.12):
    """one op; `lossy` ops carry one of the attributes that reverse() is known to lose"""
    lossy = rng.random() < lossy_p
    kind = rng.choice(["createTable", "dropTable", "addColumn", "dropColumn", "createIndex", "dropIndex", "addUq", "addFk",
                       "addCheck", "addPk", "dropConstraint", "alterColumn", "alterColumn", "createTableComment",
                       "dropTableComment"])
    tn, sc = rng.choice(TABLES), rng.choice(SCHEMAS)
    if kind == "createTable":
        t = gen_table(rng)
        if rng.random() < 0.6:
            op = ops.CreateTableOp.from_table(t)
        else:
            # op.create_table() style: built directly from Column objects, which may carry the
            # unique=True / index=True flags (also both), next to explicit UniqueConstraints
            kw = gen_table_kw(rng)
            flagged = rng.random() < 0.6
            pkc = [c for c in t.constraints if isinstance(c, sa.PrimaryKeyConstraint) and len(c.columns) > 1]
            pk_flags = rng.random() < 0.5
            cols = []
            for i, c in enumerate(t.c):
                ckw = {}
                if flagged and rng.random() < 0.5:
                    r = rng.random()
                    if r < 0.5:
                        ckw["unique"] = True
                    elif r < 0.75:
                        ckw["index"] = True
                    else:
                        ckw["unique"] = ckw["index"] = True
                # with a composite key: half of the time the member columns carry primary_key=True as well, next to the
                # explicit PrimaryKeyConstraint that fixes the order (op.create_table(Column(.., primary_key=True), ..,
                # PrimaryKeyConstraint('b', 'a')))
                in_pk = bool(pkc) and c.name in [x.name for x in pkc[0].columns] and pk_flags
                cols.append(sa.Column(c.name, c.type, nullable=c.nullable, key=c.key,
                                      primary_key=in_pk or (i == 0 and kw.get("sqlite_with_rowid") is False and not pkc), **ckw))
            extra = []
            if pkc:
                extra.append(sa.PrimaryKeyConstraint(*[c.key for c in pkc[0].columns], name=ro_name(pkc[0].name)))
            if rng.random() < 0.3:
                names_ = [c.key for c in cols]
                extra.append(sa.UniqueConstraint(*rng.sample(names_, min(len(names_), rng.choice([1, 2]))),
                                                 name=rng.choice([None, "uq_d"])))
            op = ops.CreateTableOp(t.name, cols + extra, schema=t.schema, **kw)
        if lossy:
            op.if_not_exists = True
        return op
    if kind == "dropTable":
        if rng.random() < 0.75:
            op = ops.DropTableOp.from_table(gen_table(rng))
        else:
            op = ops.DropTableOp(tn, schema=sc, table_kw=gen_table_kw(rng))
        if lossy:
            op.if_exists = True
        return op
    if kind == "addColumn":
        return ops.AddColumnOp(tn, gen_column(rng), schema=sc)
    if kind == "dropColumn":
        if rng.random() < 0.8:
            op = ops.DropColumnOp.from_column_and_tablename(sc, tn, gen_column(rng))
        else:
            op = ops.DropColumnOp(tn, rng.choice(COLS), schema=sc)
        if lossy:
            op.kw[rng.choice(["mssql_drop_check", "mssql_drop_default", "mssql_drop_foreign_key"])] = True
        return op
    if kind in ("createIndex", "dropIndex"):
        t = gen_table(rng, with_cons=False)
        cols = rng.sample(list(t.c), min(len(t.c), rng.choice([1, 2])))
        kw = {}
        if rng.random() < 0.15:
            kw["postgresql_using"] = "btree"
        if rng.random() < 0.35:
            # partial index: the predicate as text() or as a column expression, for SQLite and/or PostgreSQL
            c0 = cols[0]
            pred = sa.text('%s > 0' % (c0.name if " " not in c0.name else '"%s"' % c0.name)) if rng.random() < 0.5 else (c0 != None)  # noqa: E711
            for dk in rng.sample(["sqlite_where", "postgresql_where"], rng.choice([1, 1, 2])):
                kw[dk] = pred
        ix = sa.Index(rng.choice(["ix_1", "Ix Two"]), *cols, unique=rng.random() < 0.4, **kw)
        if kind == "createIndex":
            if rng.random() < 0.6:
                op = ops.CreateIndexOp.from_index(ix)
            else:
                op = ops.CreateIndexOp(ix.name, t.name, [c.name for c in cols], schema=t.schema, unique=ix.unique,
                                       **{k_: v_ for k_, v_ in kw.items() if isinstance(v_, (str, sa.sql.elements.TextClause))})
            if lossy:
                op.if_not_exists = True
        else:
            if rng.random() < 0.75:
                op = ops.DropIndexOp.from_index(ix)
            else:
                op = ops.DropIndexOp(ix.name, t.name, schema=t.schema,
                                     **{k_: v_ for k_, v_ in kw.items() if isinstance(v_, (str, sa.sql.elements.TextClause))})
            if lossy:
                op.if_exists = True
        return op
    if kind == "addUq":
        kw = {}
        if lossy:
            if rng.random() < 0.6:
                kw["deferrable"] = False
            else:
                kw["initially"] = ""
        elif rng.random() < 0.2:
            kw["deferrable"] = True
            kw["initially"] = rng.choice(["DEFERRED", "IMMEDIATE"])
        return ops.CreateUniqueConstraintOp(rng.choice([None, "uq_x"]), tn, rng.sample(COLS, rng.choice([1, 2])), schema=sc, **kw)
    if kind == "addFk":
        kw = {}
        if lossy:
            kw["deferrable"] = False
        elif rng.random() < 0.2:
            kw["deferrable"] = True
        if rng.random() < 0.4:
            kw["ondelete"] = rng.choice(["CASCADE", "SET NULL"])
        if rng.random() < 0.2:
            kw["onupdate"] = "CASCADE"
        if sc:
            kw["source_schema"] = sc
        if rng.random() < 0.2:
            kw["referent_schema"] = "s3"
        if rng.random() < 0.15:
            kw["initially"] = rng.choice(["DEFERRED", "IMMEDIATE"])
        if rng.random() < 0.15:
            kw["match"] = rng.choice(["FULL", "SIMPLE"])
        if rng.random() < 0.15:
            kw["use_alter"] = rng.random() < 0.7
        if rng.random() < 0.15:
            # self-referential: source and referent are the same table (schemaobj.foreign_key_constraint builds one Table)
            kw["referent_schema"] = sc
            return ops.CreateForeignKeyOp(rng.choice([None, "fk_self"]), tn, tn, ["b"], ["id"], **kw)
        return ops.CreateForeignKeyOp(rng.choice([None, "fk_x"]), tn, "other", [rng.choice(COLS)], ["id"], **kw)
    if kind == "addCheck":
        kw = {}
        if lossy:
            kw["deferrable"] = True
        if rng.random() < 0.15:
            kw["initially"] = rng.choice(["DEFERRED", "IMMEDIATE"])
        return ops.CreateCheckConstraintOp(rng.choice([None, "ck_x"]), tn, rng.choice(["a > 0", "b <> 'q'"]), schema=sc, **kw)
    if kind == "addPk":
        return ops.CreatePrimaryKeyOp(rng.choice([None, "pk_x"]), tn, rng.sample(COLS, rng.choice([1, 2])), schema=sc)
    if kind == "dropConstraint":
        r = rng.random()
        if r < 0.55:
            base = gen_leaf_constraint(rng)
            return ops.DropConstraintOp.from_constraint(base.to_constraint())
        if r < 0.8:
            # built directly: its own type_ next to the stored add-op (every constraint kind, primary keys included)
            base = gen_leaf_constraint(rng)
            tname = getattr(base, "table_name", None) or base.source_table
            schema = base.kw.get("source_schema") if isinstance(base, ops.CreateForeignKeyOp) else base.schema
            type_ = {"primarykey": "primary"}.get(base.constraint_type, base.constraint_type)
            return ops.DropConstraintOp(base.constraint_name, tname, type_=type_, schema=schema, _reverse=base)
        return ops.DropConstraintOp(rng.choice(["uq_x", "fk_x"]), tn, type_=rng.choice([None, "unique", "foreignkey", "check"]), schema=sc)
    if kind == "alterColumn":
        return gen_alter(rng, lossy)
    if kind == "createTableComment":
        return ops.CreateTableCommentOp(tn, rng.choice(["c1", "it's"]), schema=sc, existing_comment=rng.choice([None, "old"]))
    return ops.DropTableCommentOp(tn, schema=sc, existing_comment=rng.choice([None, "old"]))


def gen_leaf_constraint(rng):
    while True:
        op = gen_leaf(rng, lossy_p=0.0)
        if isinstance(op, ops.AddConstraintOp):
            return op


def gen_tree(rng, depth=0):
    """a list of ops with ModifyTableOps containers (nested up to two levels)"""
    out = []
    for _ in range(rng.randint(0, 4)):
        if depth < 2 and rng.random() < 0.35:
            out.append(ops.ModifyTableOps(rng.choice(TABLES), gen_tree(rng, depth + 1), schema=rng.choice(SCHEMAS)))
        else:
            out.append(gen_leaf(rng, lossy_p=0.05))
    return out


def lossy_features(j):
    """names of the attributes of a canonical op that reverse() is known not to carry (open finding F13)"""
    k = j.get("k")
    out = []
    if k in ("createTable", "createIndex") and j["ine"] is not None:
        out.append("if_not_exists")
    if k in ("dropTable", "dropIndex") and j["ie"] is not None:
        out.append("if_exists")
    if k in ("addColumn", "dropColumn") and j["kw"]:
        out.append("column_kw")
    if k == "createTable" and j["t"].get("ixs"):
        out.append("column_index_flag")
    if k == "dropTable" and (j["rev"] or {}).get("ixs"):
        out.append("column_index_flag")
    if k == "modifyTable":
        for o in j["ops"]:
            out.extend(lossy_features(o))
    return out


def strip_lossy(op):
    """a copy of the op without the attributes listed by lossy_features"""
    import copy
    o = copy.copy(op)
    o.__dict__.pop("_verif_sql", None)
    if isinstance(o, (ops.CreateTableOp, ops.CreateIndexOp)):
        o.if_not_exists = None
    if isinstance(o, ops.CreateTableOp) and not o._constraints_included:
        # drop the index=True flags (F15), keep unique=True and everything else
        cols = []
        for c in o.columns:
            if isinstance(c, sa.Column) and c.index:
                c = sa.Column(c.name, c.type, nullable=c.nullable, primary_key=c.primary_key, unique=c.unique,
                              server_default=c.server_default, comment=c.comment, key=c.key)
            cols.append(c)
        o.columns = cols
    if isinstance(o, (ops.DropTableOp, ops.DropIndexOp)):
        o.if_exists = None
    if isinstance(o, (ops.AddColumnOp, ops.DropColumnOp)):
        o.kw = {}
    return o
