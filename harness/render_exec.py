"""C08 executor: run the REAL alembic code both ways.

  * rendering:   alembic.autogenerate.render.render_op / render_op_text / render_python_code
  * exec side:   compile() + exec() of the rendered text against an offline `Operations`
  * invoke side: `Operations.invoke(op_object)` on the very same op object

and compare the DDL the two emit (offline / as_sql mode, per dialect).
No classification of known findings happens here.
"""
from __future__ import annotations

import io
import re
import warnings

import sqlalchemy as sa
from sqlalchemy.dialects import mssql as _d_mssql
from sqlalchemy.dialects import mysql as _d_mysql
from sqlalchemy.dialects import oracle as _d_oracle
from sqlalchemy.dialects import postgresql as _d_postgresql
from sqlalchemy.dialects import sqlite as _d_sqlite
from sqlalchemy.engine.default import DefaultDialect

from alembic.autogenerate import render as _render
from alembic.autogenerate import render_python_code
from alembic.autogenerate.api import AutogenContext
from alembic.operations import Operations
from alembic.operations import ops
from alembic.runtime.migration import MigrationContext

DIALECTS = ("sqlite", "postgresql", "mysql", "mssql", "oracle")

RENDER_OPTS = {
    "sqlalchemy_module_prefix": "sa.",
    "alembic_module_prefix": "op.",
    "user_module_prefix": None,
}


# ---------------------------------------------------------------------------------------
# rendering
# ---------------------------------------------------------------------------------------
def mirror_hook(kinds):
    """a `render_item` hook that, for the item kinds in `kinds`, returns what alembic itself would
    render (by calling the default renderer with the hook switched off) and False otherwise: the
    `if rendered is not False: return rendered` exits of every renderer are taken, the result
    is judged by the exec-vs-invoke oracle like any other rendering"""

    def hook(type_, obj, actx):
        if type_ not in kinds:
            return False
        saved = actx.opts.get("render_item")
        actx.opts["render_item"] = None
        try:
            if type_ == "type":
                return _render._repr_type(obj, actx)
            if type_ == "server_default":
                return _render._render_server_default(obj, actx)
            if type_ == "column":
                return _render._render_column(obj, actx)
            if type_ in ("primary_key", "foreign_key", "unique", "check", "exclude"):
                return _render._render_constraint(obj, actx, obj.table.metadata)
            return False
        finally:
            actx.opts["render_item"] = saved

    return hook


MIRROR_KINDS = {
    "false": (),
    "mirror-types": ("type", "server_default"),
    "mirror-column": ("column",),
    "mirror-constraints": ("primary_key", "foreign_key", "unique", "check", "exclude"),
}


def autogen_context(render_dialect, render_as_batch, render_item=None, user_module_prefix=None):
    if render_dialect in (None, "default"):
        mc = MigrationContext.configure(dialect=DefaultDialect())
    else:
        mc = MigrationContext.configure(dialect_name=render_dialect)
    opts = dict(RENDER_OPTS)
    opts["render_as_batch"] = bool(render_as_batch)
    if render_item is not None:
        opts["render_item"] = mirror_hook(MIRROR_KINDS[render_item])
    if user_module_prefix is not None:
        opts["user_module_prefix"] = user_module_prefix
    return AutogenContext(mc, opts=opts)


def _print_lines(lines):
    """what _render_cmd_body does with the lines of one op: mako's PythonPrinter (this is
    where the body of a `with op.batch_alter_table(...)` block gets its indentation)"""
    from mako.pygen import PythonPrinter

    buf = io.StringIO()
    printer = PythonPrinter(buf)
    for line in lines:
        printer.writeline(line)
    return buf.getvalue()


def render_one(actx, op_obj):
    """-> dict(text=render_op_text(...), code=<the same lines through PythonPrinter>, error=repr|None)"""
    try:
        lines = _render.render_op(actx, op_obj)
        text = "\n".join(lines)
        code = _print_lines(lines) if lines else "pass\n"
        return {"text": text, "code": code, "error": None, "exc": None}
    except Exception as e:  # noqa
        return {"text": None, "code": None, "error": repr(e), "exc": e}


def render_each(case, render_dialect=None):
    """one entry per top-level op: dict(op, index, text, code, error)"""
    rd = render_dialect or case.spec["opts"].get("render_dialect", "default")
    out = []
    for i, o in enumerate(case.ops):
        actx = autogen_context(rd, case.render_opts["render_as_batch"])
        r = render_one(actx, o)
        # documented public spelling; identical to "\n".join(render_op(...))
        if r["error"] is None:
            assert r["text"] == _render.render_op_text(autogen_context(rd, case.render_opts["render_as_batch"]), o)
        out.append({"op": o, "index": i, "text": r["text"], "code": r["code"], "error": r["error"]})
    return out


def render_body(case, render_dialect=None):
    rd = render_dialect or case.spec["opts"].get("render_dialect", "default")
    if rd == "default":
        mc = MigrationContext.configure(dialect=DefaultDialect())
    else:
        mc = MigrationContext.configure(dialect_name=rd)
    return render_python_code(
        ops.UpgradeOps(ops=list(case.ops)),
        sqlalchemy_module_prefix="sa.",
        alembic_module_prefix="op.",
        render_as_batch=case.render_opts["render_as_batch"],
        migration_context=mc,
    )


# ---------------------------------------------------------------------------------------
# the two ways of producing DDL
# ---------------------------------------------------------------------------------------
def _offline(dialect, target_metadata=None):
    buf = io.StringIO()
    opts = {"as_sql": True, "output_buffer": buf}
    if target_metadata is not None:
        # what env.py normally configures: schemaobj.metadata() then copies its naming_convention
        opts["target_metadata"] = target_metadata
    mc = MigrationContext.configure(dialect_name=dialect, opts=opts)
    return buf, mc, Operations(mc)


def sql_of_invoke(op_obj, dialect, as_batch=False, target_metadata=None):
    """-> (sql_text, exception or None)"""
    buf, mc, o = _offline(dialect, target_metadata)
    try:
        with warnings.catch_warnings():
            warnings.simplefilter("ignore")
            if isinstance(op_obj, ops.ModifyTableOps):
                if as_batch:
                    if op_obj.ops:
                        with o.batch_alter_table(op_obj.table_name, schema=op_obj.schema) as b:
                            for inner in op_obj.ops:
                                b.invoke(inner)
                else:
                    for inner in op_obj.ops:
                        o.invoke(inner)
            else:
                o.invoke(op_obj)
    except Exception as e:  # noqa
        return buf.getvalue(), e
    return buf.getvalue(), None


import harness as _harness_pkg  # noqa: E402  (user defined types render as harness.render_usertypes.X)
from . import render_usertypes as _usertypes  # noqa: E402,F401

_EXEC_MODULES = {
    "sa": sa,
    "harness": _harness_pkg,
    "ut": _usertypes,
    "mysql": _d_mysql,
    "postgresql": _d_postgresql,
    "mssql": _d_mssql,
    "oracle": _d_oracle,
    "sqlite": _d_sqlite,
}


def sql_of_exec(text, dialect, target_metadata=None, call=None, user_module_prefix=None):
    """-> (sql_text, error_kind in (None, 'syntax', 'exec'), exception or None);
    `call`: name of a function defined by the text that is called afterwards (def upgrade())"""
    try:
        with warnings.catch_warnings():
            warnings.simplefilter("ignore")  # invalid escape sequences etc. are judged by the SQL
            code = compile(text, "<rendered>", "exec")
    except (SyntaxError, ValueError) as e:
        return "", "syntax", e
    buf, mc, o = _offline(dialect, target_metadata)
    g = dict(_EXEC_MODULES)
    # the migration file imports user types the way the configuration says: under the configured
    # user_module_prefix ("ut."), or else by their module path (harness.render_usertypes)
    g.pop("harness" if user_module_prefix else "ut")
    g["op"] = o
    g["__builtins__"] = __builtins__
    try:
        with warnings.catch_warnings():
            warnings.simplefilter("ignore")
            exec(code, g)
            if call:
                g[call]()
    except Exception as e:  # noqa
        return buf.getvalue(), "exec", e
    return buf.getvalue(), None, None


# ---------------------------------------------------------------------------------------
# SQL normalisation
# ---------------------------------------------------------------------------------------
_TOK = re.compile(r"'[^']*'|\"[^\"]*\"|`[^`]*`|\s+|[^'\"`\s]+|.", re.S)
_TOK_BR = re.compile(r"'[^']*'|\"[^\"]*\"|`[^`]*`|\[[^\]]*\]|\s+|[^'\"`\[\s]+|.", re.S)
_CONSTRAINT_KW = re.compile(r"^(CONSTRAINT|PRIMARY KEY|UNIQUE|FOREIGN KEY|CHECK)\b", re.I)


def _statements(s):
    """offline output: statements are separated by a blank line (terminator + "\\n\\n")"""
    out = []
    for chunk in re.split(r"\n[ \t]*\n", s):
        c = chunk.strip()
        if not c or c == "GO":
            continue
        out.append(c)
    return out


def _collapse(stmt, bracket_quotes=False):
    """collapse whitespace runs OUTSIDE quoted identifiers / string literals"""
    toks = (_TOK_BR if bracket_quotes else _TOK).findall(stmt)
    out = []
    for t in toks:
        if t and t[0] in " \t\r\n\f\v" and not t.strip():
            out.append(" ")
        else:
            out.append(t)
    s = "".join(out).strip()
    s = re.sub(r"\s*;$", "", s)
    s = re.sub(r"(?:\s|^)GO$", "", s).strip()
    s = re.sub(r"\s*;$", "", s)
    return s


def _split_top(body, bracket_quotes=False):
    """split `body` on commas that are outside parens and quotes"""
    parts, depth, cur = [], 0, []
    i, n = 0, len(body)
    closers = {"'": "'", '"': '"', "`": "`"}
    if bracket_quotes:
        closers["["] = "]"
    while i < n:
        ch = body[i]
        if ch in closers:
            j = body.find(closers[ch], i + 1)
            j = n - 1 if j < 0 else j
            cur.append(body[i : j + 1])
            i = j + 1
            continue
        if ch == "(":
            depth += 1
        elif ch == ")":
            depth -= 1
        if ch == "," and depth == 0:
            parts.append("".join(cur).strip())
            cur = []
        else:
            cur.append(ch)
        i += 1
    parts.append("".join(cur).strip())
    return parts


def _sort_create_table(stmt, bracket_quotes=False):
    if not re.match(r"CREATE\s+(\w+\s+)*TABLE\b", stmt, re.I):
        return stmt
    # find the first top-level '(' outside quotes
    closers = {"'": "'", '"': '"', "`": "`"}
    if bracket_quotes:
        closers["["] = "]"
    i, n = 0, len(stmt)
    start = -1
    while i < n:
        ch = stmt[i]
        if ch in closers:
            j = stmt.find(closers[ch], i + 1)
            i = (n if j < 0 else j) + 1
            continue
        if ch == "(":
            start = i
            break
        i += 1
    if start < 0:
        return stmt
    depth, j, end = 0, start, -1
    while j < n:
        ch = stmt[j]
        if ch in closers:
            k = stmt.find(closers[ch], j + 1)
            j = (n if k < 0 else k) + 1
            continue
        if ch == "(":
            depth += 1
        elif ch == ")":
            depth -= 1
            if depth == 0:
                end = j
                break
        j += 1
    if end < 0:
        return stmt
    parts = _split_top(stmt[start + 1 : end], bracket_quotes)
    cols = [p for p in parts if not _CONSTRAINT_KW.match(p)]
    cons = sorted(p for p in parts if _CONSTRAINT_KW.match(p))
    return stmt[: start + 1] + ", ".join(cols + cons) + stmt[end:]


def normalise_sql(s, sort_table_clauses=False, bracket_quotes=False):
    """collapse whitespace (outside quotes), strip statement terminators `;` / `GO`;
    statements are joined with ' ;; '.  With sort_table_clauses=True the constraint clauses
    of every CREATE TABLE (...) are sorted (the column clauses keep their order)."""
    out = []
    for st in _statements(s or ""):
        c = _collapse(st, bracket_quotes)
        if not c:
            continue
        if sort_table_clauses:
            c = _sort_create_table(c, bracket_quotes)
        out.append(c)
    return " ;; ".join(out)


# ---------------------------------------------------------------------------------------
# oracle
# ---------------------------------------------------------------------------------------
def _same_error(a, b):
    return type(a) is type(b)


def _first_unrenderable(group, rd, as_batch, ri, ump):
    """(index, inner op, exception) of the first op of a ModifyTableOps that cannot be rendered on its own"""
    for k, inner in enumerate(group.ops):
        r = render_one(autogen_context(rd, as_batch, ri, ump), ops.ModifyTableOps(group.table_name, [inner], schema=group.schema))
        if r["error"] is not None:
            return k, inner, r["exc"]
    return None


def oracle(case, dialects=DIALECTS, render_dialect=None):
    """one result per (top-level op, dialect).

    kind: ok | syntax | exec-error | invoke-error | both-error-same | sql-mismatch |
          exec-differs-from-invoke-error | render-error
    render_dialect=None: render with the same dialect that executes; otherwise a fixed one
    ("spec" = the spec's opts.render_dialect).
    """
    as_batch = case.render_opts["render_as_batch"]
    allowed = case.spec.get("dialects")
    if render_dialect == "spec":
        render_dialect = case.spec["opts"].get("render_dialect", "default")
    results = []
    rendered_cache = {}
    sopts = case.spec.get("opts", {})
    ri = sopts.get("render_item")
    ump = sopts.get("user_module_prefix")
    tm = case.metadata if sopts.get("target_metadata") else None
    for d in dialects:
        if allowed and d not in allowed:
            continue
        rd = render_dialect or d
        for i, o in enumerate(case.ops):
            key = (rd, i)
            if key not in rendered_cache:
                rendered_cache[key] = render_one(autogen_context(rd, as_batch, ri, ump), o)
            r = rendered_cache[key]
            res = {
                "index": i,
                "dialect": d,
                "render_dialect": rd,
                "op_kind": case.op_kinds[i] if hasattr(case, "op_kinds") else type(o).__name__,
                "kind": None,
                "text": r["text"],
                "code": r["code"],
                "sql_exec": None,
                "sql_invoke": None,
                "error": None,
                "reordered": False,
            }
            results.append(res)
            sql_i, err_i = sql_of_invoke(o, d, as_batch, tm)
            res["sql_invoke"] = sql_i
            if r["error"] is not None:
                res["kind"] = "render-error"
                res["error"] = r["error"]
                if err_i is not None:
                    res["error"] += " / invoke: %r" % (err_i,)
                    if _same_error(r["exc"], err_i):
                        res["kind"] = "both-error-same"
                    elif isinstance(o, ops.ModifyTableOps):
                        # a ModifyTableOps group: rendering stops at the first op it cannot render, invoke at the first op
                        # it cannot execute -- possibly another op.  Judge the op that cannot be rendered on its own: if
                        # invoking THAT op alone is refused with the same exception, both paths refuse it (nothing to compare)
                        hit = _first_unrenderable(o, rd, as_batch, ri, ump)
                        if hit is not None:
                            k, inner, exc_r = hit
                            _, exc_i = sql_of_invoke(ops.ModifyTableOps(o.table_name, [inner], schema=o.schema), d, as_batch, tm)
                            if exc_i is not None and _same_error(exc_r, exc_i) and str(exc_r) == str(exc_i):
                                res["kind"] = "both-error-same"
                                res["error"] += " / op %d of the group alone: render and invoke both raise %r" % (k, exc_i)
                continue
            sql_e, ek, err_e = sql_of_exec(r["code"], d, tm, user_module_prefix=ump)
            res["sql_exec"] = sql_e
            if ek == "syntax":
                res["kind"] = "syntax"
                res["error"] = repr(err_e)
                continue
            if err_i is not None:
                if err_e is not None and _same_error(err_e, err_i):
                    res["kind"] = "both-error-same" if str(err_e) == str(err_i) else "invoke-error"
                    res["error"] = repr(err_i)
                else:
                    res["kind"] = "exec-differs-from-invoke-error"
                    res["error"] = "invoke: %r / exec: %r" % (err_i, err_e)
                continue
            if err_e is not None:
                res["kind"] = "exec-error"
                res["error"] = repr(err_e)
                continue
            bq = d == "mssql"
            a = normalise_sql(sql_e, bracket_quotes=bq)
            b = normalise_sql(sql_i, bracket_quotes=bq)
            if a == b:
                res["kind"] = "ok"
                continue
            if "CREATE" in a and normalise_sql(sql_e, True, bq) == normalise_sql(sql_i, True, bq):
                res["kind"] = "ok"
                res["reordered"] = True
                continue
            res["kind"] = "sql-mismatch"
    return results


# ---------------------------------------------------------------------------------------
# smoke
# ---------------------------------------------------------------------------------------
def _main(argv=None):
    import argparse
    import collections
    import json
    import random
    import time

    from . import render_gen

    ap = argparse.ArgumentParser()
    ap.add_argument("-n", type=int, default=2000)
    ap.add_argument("--seed", type=int, default=0)
    ap.add_argument("--thorough", action="store_true")
    ap.add_argument("--show", type=int, default=3, help="witnesses per failure class")
    ap.add_argument("--render-dialect", default=None)
    ap.add_argument("--shrink", action="store_true", help="shrink the printed witnesses")
    ap.add_argument("--dump", default=None, help="write all non-ok results as JSON lines")
    a = ap.parse_args(argv)

    table = collections.defaultdict(collections.Counter)
    classes = collections.defaultdict(list)
    nres = 0
    build_err = collections.Counter()
    t0 = time.time()
    for k in range(a.n):
        rng = random.Random("%d/%d" % (a.seed, k))
        spec = render_gen.gen_spec(rng, thorough=a.thorough)
        try:
            case = render_gen.build(spec)
        except Exception as e:  # noqa
            build_err[type(e).__name__ + ": " + str(e)[:100]] += 1
            continue
        for res in oracle(case, render_dialect=a.render_dialect):
            nres += 1
            table[(res["op_kind"].split(":")[0], res["dialect"])][res["kind"]] += 1
            if res["kind"] not in ("ok", "invoke-error", "both-error-same"):
                sig = (res["kind"], res["op_kind"].split(":")[0], _sig(res))
                classes[sig].append((len(json.dumps(spec)), k, res, spec))
    dt = time.time() - t0
    kinds = sorted({k for c in table.values() for k in c})
    print("cases=%d results=%d  %.1fs  %.1f cases/s" % (a.n, nres, dt, a.n / dt))
    if build_err:
        print("build errors:", dict(build_err))
    print("%-14s %-11s " % ("op", "dialect") + " ".join("%9s" % k[:9] for k in kinds))
    for key in sorted(table):
        print("%-14s %-11s " % key + " ".join("%9d" % table[key][k] for k in kinds))
    print()
    dumpf = open(a.dump, "w") if a.dump else None
    for sig in sorted(classes, key=lambda s: (s[0], s[1], s[2])):
        lst = sorted(classes[sig], key=lambda x: x[0])
        print("=" * 100)
        print("CLASS %s  n=%d  dialects=%s" % (sig, len(lst), sorted({x[2]["dialect"] for x in lst})))
        shown = []
        for size, k, res, spec in lst[: a.show]:
            if a.shrink:
                kind, d, sg = res["kind"], res["dialect"], sig[2]
                spec = shrink(spec, lambda s: _has_class(s, kind, d, sg, a.render_dialect) is not None)
                res = _has_class(spec, kind, d, sg, a.render_dialect) or res
            shown.append((size, k, res, spec))
        for size, k, res, spec in shown:
            print("--- case %d/%d op#%d dialect=%s render_dialect=%s batch=%s nc=%s" % (a.seed, k, res["index"], res["dialect"], res["render_dialect"], spec["opts"]["render_as_batch"], spec["opts"]["naming_convention"]))
            if a.shrink:
                print("spec.tables:", json.dumps(spec["tables"], ensure_ascii=True))
                print("spec.ops:", json.dumps(spec["ops"], ensure_ascii=True))
            print("code:\n" + (res["code"] or "<none>"))
            print("error:", res["error"])
            print("sql_exec:  ", normalise_sql(res["sql_exec"] or "", bracket_quotes=res["dialect"] == "mssql"))
            print("sql_invoke:", normalise_sql(res["sql_invoke"] or "", bracket_quotes=res["dialect"] == "mssql"))
        if dumpf:
            for size, k, res, spec in shown:
                dumpf.write(json.dumps({"sig": sig, "case": k, "res": {x: y for x, y in res.items()}, "spec": spec}, default=str) + "\n")
    if dumpf:
        dumpf.close()


def _shape(tok):
    m = re.fullmatch(r"[(]*([A-Z_]{2,})[(),;]*", tok)
    if m:
        return m.group(1)
    return "x"


def _sig(res):
    """coarse signature used only to group the smoke output"""
    if res["kind"] in ("syntax", "exec-error", "render-error", "exec-differs-from-invoke-error"):
        e = res["error"] or ""
        e = re.sub(r"\d+", "N", e)
        e = re.sub(r"\(.*", "", e) if res["kind"] != "exec-differs-from-invoke-error" else " / ".join(re.sub(r"\(.*", "", x) for x in e.split(" / exec: "))
        return e[:70]
    import difflib

    bq = res["dialect"] == "mssql"
    a = normalise_sql(res["sql_exec"] or "", True, bq).split()
    b = normalise_sql(res["sql_invoke"] or "", True, bq).split()
    sm = difflib.SequenceMatcher(a=a, b=b, autojunk=False)
    for tag, i1, i2, j1, j2 in sm.get_opcodes():
        if tag != "equal":
            ctx = [t for t in a[:i1] if _shape(t) != "x"][-2:]
            return "%s after %s: exec[%s] invoke[%s]" % (
                tag,
                " ".join(ctx) or "^",
                " ".join(_shape(t) for t in a[i1:i2][:2]),
                " ".join(_shape(t) for t in b[j1:j2][:2]),
            )
    return "same?"


def shrink(spec, pred, max_rounds=200):
    """greedy: keep applying the first shrink candidate for which pred(candidate) stays true"""
    from . import render_gen

    cur = spec
    for _ in range(max_rounds):
        for cand in render_gen.shrink_candidates(cur):
            try:
                ok = pred(cand)
            except Exception:  # noqa
                ok = False
            if ok:
                cur = cand
                break
        else:
            return cur
    return cur


def _has_class(spec, kind, dialect, sig, render_dialect=None):
    from . import render_gen

    case = render_gen.build(spec)
    for res in oracle(case, dialects=(dialect,), render_dialect=render_dialect):
        if res["kind"] == kind and _sig(res) == sig:
            return res
    return None


if __name__ == "__main__":
    _main()
