"""Correspondence of Model.Py (pyRepr / pyParseStr) with the interpreter.

Shared by C08 (rendered names) and C17 (identifier assignments of script.py.mako).
Strings travel to the driver as arrays of code points.

  py.repr   {s, nonprintable}  vs  repr(s)
  py.parse  {text}             vs  ast.literal_eval(text)       (on repr output, on naive
                                                                 '%s' embeddings and on a malformed stream)
  py.spec   {text, s}          Lean checker Spec.Py.denotesB applied to the interpreter's repr(s)
"""
from __future__ import annotations

import ast
import re
import warnings

ALPHABETS = {
    "plain": "abcxyz_019 ",
    "quotes": "a'\"b ",
    "backslash": "a\\b'nxtuU01",
    "control": "a\n\r\t\x00\x01\x1f\x7f\x0b\x0c\x07\x08",
    "latin1": "a\x80\x85\xa0\xad\xe9\xff",
    "bmp": "a\u0100\u200b\u2028\u3042\u8868\ue000\ufeff\uffff",
    "astral": "a\U0001f600\U000e0001\U0010ffff\U00010000",
    "percent": "a%s%(x)s{}{0}",
}


def cps(s):
    return [ord(c) for c in s]


def from_cps(l):
    return "".join(chr(c) for c in l)


def nonprintable(s):
    return sorted({ord(c) for c in s if ord(c) > 126 and not c.isprintable()})


def gen_string(rng):
    kinds = rng.sample(sorted(ALPHABETS), rng.choice([1, 1, 2, 3]))
    alpha = "".join(ALPHABETS[k] for k in kinds)
    n = rng.choice([0, 1, 1, 2, 3, 4, 6, 9, 14])
    return "".join(rng.choice(alpha) for _ in range(n)), "+".join(sorted(kinds))


def gen_literal_text(rng):
    """malformed stream: something that looks like a literal"""
    q = rng.choice("'\"")
    alpha = "ab" + q + "'\"" + "\\\\\\" + "nrtxuUabfvN0178{}\n9cdefABCDEF "
    body = "".join(rng.choice(alpha) for _ in range(rng.choice([0, 1, 2, 3, 4, 5, 7, 10])))
    return q + body + rng.choice([q, q, q, ""]) + rng.choice(["", "", "", " ", "x", q])


def py_eval_literal(text):
    """-> ('ok', str) | ('err', kind)"""
    try:
        with warnings.catch_warnings():
            warnings.simplefilter("ignore")
            v = ast.literal_eval(text)
    except (SyntaxError, ValueError, MemoryError, RecursionError) as e:
        return ("err", type(e).__name__)
    if not isinstance(v, str):
        return ("err", "not-str:" + type(v).__name__)
    return ("ok", v)


_UNSUPPORTED = re.compile(r"\\[0-7N\n\r]")


def outside_subset(text):
    """literal forms pyParseStr deliberately rejects although Python accepts them"""
    if _UNSUPPORTED.search(text):
        return "octal/N/continuation"
    if len(text) >= 2 and text[0] in "'\"":
        q = text[0]
        # an unescaped quote before the end: implicit concatenation or triple quotes
        i = 1
        while i < len(text):
            if text[i] == "\\":
                i += 2
                continue
            if text[i] == q:
                return None if i == len(text) - 1 else "concatenation/triple/trailing"
            i += 1
    if text != text.strip():
        return "whitespace"
    return None


def has_surrogate(s):
    return any(0xD800 <= ord(c) <= 0xDFFF for c in s)


def run_py(ctx, n, rng_name="py"):
    """returns number of cases; records disagreements / failures on ctx"""
    rng = ctx.rng(rng_name)
    strings = []
    for _ in range(n):
        s, k = gen_string(rng)
        strings.append((s, k))
    ops, meta = [], []
    for s, k in strings:
        r = repr(s)
        ops.append({"op": "py.repr", "s": cps(s), "nonprintable": nonprintable(s)})
        meta.append(("repr", s, k, r))
        ops.append({"op": "py.spec", "text": cps(r), "s": cps(s)})
        meta.append(("spec", s, k, r))
        ops.append({"op": "py.parse", "text": cps(r)})
        meta.append(("parse", r, k, None))
        nv = "'%s'" % s
        ops.append({"op": "py.parse", "text": cps(nv)})
        meta.append(("parse", nv, "naive:" + k, None))
    for _ in range(n):
        t = gen_literal_text(rng)
        ops.append({"op": "py.parse", "text": cps(t)})
        meta.append(("parse", t, "malformed", None))
    ans = ctx.drv.ask(ops)
    for (what, a, k, r), o, m in zip(meta, ops, ans):
        ctx.evaluation()
        if what == "repr":
            ctx.hist("py.string_class", k)
            got = from_cps(m.get("text", []))
            if got != r:
                ctx.disagree("py.repr", {"s": cps(a)}, r, got)
            else:
                ctx.trace_ok()
                ctx.nontrivial(("py.repr", r))
        elif what == "spec":
            if m.get("holds") is not True:
                ctx.fail({"s": cps(a), "text": r}, "py-repr: repr(s) is not a literal denoting s according to Spec.Py.denotesB", impl=r, tags=["py"])
        else:
            impl = py_eval_literal(a)
            if "ok" in m:
                got = from_cps(m["ok"])
                if impl != ("ok", got):
                    ctx.disagree("py.parse", {"text": a}, impl, ("ok", got))
                else:
                    ctx.trace_ok()
                    ctx.hist("py.parse", "both-accept")
            else:
                if impl[0] == "ok" and not outside_subset(a):
                    ctx.disagree("py.parse", {"text": a}, impl, "none")
                else:
                    ctx.trace_ok()
                    ctx.hist("py.parse", "both-reject" if impl[0] == "err" else "outside-subset")
    return len(ops)
