"""User-defined column types for the C08 generator (a module that is not sqlalchemy.*, so that
render._repr_type takes its `_user_autogenerate_prefix` branch: `harness.render_usertypes.Epoch()`
or, with user_module_prefix, `ut.Epoch()`)."""
import sqlalchemy as sa
from sqlalchemy.types import TypeDecorator, UserDefinedType


class Epoch(TypeDecorator):
    impl = sa.Integer
    cache_ok = True

    def __init__(self, scale=1):
        super().__init__()
        self.scale = scale

    def __repr__(self):
        return "Epoch(scale=%r)" % self.scale


class Point(UserDefinedType):
    cache_ok = True

    def __init__(self, srid=0):
        self.srid = srid

    def get_col_spec(self, **kw):
        return "POINT"

    def __repr__(self):
        return "Point(srid=%r)" % self.srid
