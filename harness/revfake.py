"""Drive alembic's real revision machinery without files: fake Script objects in a real
RevisionMap / ScriptDirectory (the pure graph code never touches the filesystem)."""
from __future__ import annotations

import io
from types import SimpleNamespace

from alembic.script.base import ScriptDirectory
from alembic.script.revision import Revision, RevisionMap


class FakeScript(Revision):
    """Stands in for alembic.script.base.Script (which only adds module/path/doc)."""

    def __init__(self, rev, down, deps=None, labels=None, up=None, downfn=None):
        super().__init__(rev, down, dependencies=deps, branch_labels=labels)
        self.module = SimpleNamespace(
            upgrade=up or (lambda **kw: None), downgrade=downfn or (lambda **kw: None), __doc__=None
        )
        self.path = "/nonexistent/%s.py" % rev

    doc = None
    longdoc = ""

    @property
    def log_entry(self):
        return self.revision

    def __str__(self):
        return "%s -> %s" % (self._format_down_revision() if hasattr(self, "_format_down_revision") else self.down_revision, self.revision)

    def _format_down_revision(self):
        if not self.down_revision:
            return "<base>"
        from alembic import util

        return util.format_as_comma(self._versioned_down_revisions)


def tup(x):
    """history json uses lists; alembic wants None / str / tuple"""
    if not x:
        return None
    if len(x) == 1:
        return x[0]
    return tuple(x)


def make_scripts(hist, bodies=None):
    """hist: list of {id, down:[..], deps:[..], labels:[..]} in load order."""
    out = []
    for r in hist:
        b = (bodies or {}).get(r["id"], (None, None))
        out.append(FakeScript(r["id"], tup(r.get("down")), tup(r.get("deps")), tup(r.get("labels")), b[0], b[1]))
    return out


def make_sd(hist, bodies=None):
    revs = make_scripts(hist, bodies)
    sd = ScriptDirectory.__new__(ScriptDirectory)
    sd.dir = "/nonexistent"
    sd.file_template = "%(rev)s_%(slug)s"
    sd.version_locations = None
    sd.truncate_slug_length = 40
    sd.sourceless = False
    sd.output_encoding = "utf-8"
    sd.timezone = None
    sd.hook_config = None
    sd.recursive_version_locations = False
    sd.messaging_opts = {}
    sd.revision_map = RevisionMap(lambda: revs)
    return sd


def exc_class(e):
    """small enum for exceptions"""
    from alembic.script import revision as R
    from alembic.util import CommandError

    for cls, name in [
        (R.CycleDetected, "cycle"),
        (R.DependencyCycleDetected, "depCycle"),
        (R.LoopDetected, "loop"),
        (R.DependencyLoopDetected, "depLoop"),
        (R.MultipleHeads, "multipleHeads"),
        (R.RangeNotAncestorError, "rangeNotAncestor"),
        (R.ResolutionError, "resolution"),
        (R.RevisionError, "revisionError"),
        (CommandError, "commandError"),
        (KeyError, "keyError"),
        (AssertionError, "assertion"),
    ]:
        if type(e) is cls:
            return name
    for cls, name in [
        (R.RevisionError, "revisionError"),
        (CommandError, "commandError"),
        (KeyError, "keyError"),
        (AssertionError, "assertion"),
    ]:
        if isinstance(e, cls):
            return name
    return "other:" + type(e).__name__
