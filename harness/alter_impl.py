"""Implementation side of C13: drive the real ``op.alter_column`` in ``as_sql`` mode for one of
seven dialects and parse every emitted statement, with a per-dialect statement parser, into the
``Stmt`` vocabulary of ``lean/Model/Alter/Types.lean``.

An *abstract request* is a JSON-able dict of pool keys

    {"table","column","schema", "type", "nullable", "server_default", "new_name", "comment",
     "autoinc", "ex_type", "ex_nullable", "ex_default", "ex_comment", "ex_autoinc", "using"}

(``None`` = argument not passed; ``server_default``/``ex_default``/``comment`` use
``{"k": "unset"|"drop"|"set", "v": key}``).  ``to_kwargs`` turns it into the real keyword
arguments, ``to_lean`` into the model's request (types/defaults become the text SQLAlchemy renders
for the dialect plus the flags the code inspects; SQLAlchemy's rendering is a parameter of the model).
"""
from __future__ import annotations

import io
import re
import warnings

import sqlalchemy as sa
from sqlalchemy import Computed, Identity
from sqlalchemy import types as sqltypes
from sqlalchemy.engine.default import DefaultDialect
from sqlalchemy.sql.elements import quoted_name

from alembic.operations import Operations
from alembic.runtime.migration import MigrationContext

DIALECTS = ["default", "sqlite", "postgresql", "mysql", "mariadb", "mssql", "oracle"]

# ---------------------------------------------------------------------------------------------
# pools

TYPES = {
    "int": lambda: sa.Integer(),
    "str20": lambda: sa.String(20),
    "text": lambda: sa.Text(),
    "dt": lambda: sa.DateTime(),
    "numeric": lambda: sa.Numeric(10, 2),
    "bool": lambda: sa.Boolean(),
    "bool_ck": lambda: sa.Boolean(create_constraint=True, name="ck_b1"),
    "bool_ck2": lambda: sa.Boolean(create_constraint=True, name="ck_b2"),
    "bool_anon": lambda: sa.Boolean(create_constraint=True),
    "enum_ck": lambda: sa.Enum("a", "b", name="en1", create_constraint=True),
    "enum_nn": lambda: sa.Enum("x", "y", name="en2", native_enum=False, create_constraint=True),
    # type *classes* (alter_column accepts Type[TypeEngine]); the code's `_type_affinity is DateTime`
    # test is made on the object as passed
    "int_cls": lambda: sa.Integer,
    "dt_cls": lambda: sa.DateTime,
    "text_cls": lambda: sa.Text,
}
TYPE_KEYS_CLASS = ["int_cls", "dt_cls", "text_cls"]

# pairs of closely related types (same base name with a different number of arguments, a collation, an array of the
# type, synonyms): a requested change between them is still a requested change
TYPES.update({
    "str50": lambda: sa.String(50),
    "str": lambda: sa.String(),
    "num10": lambda: sa.Numeric(10),
    "str20_coll": lambda: sa.String(20, collation="C"),
    "int_arr": lambda: sa.ARRAY(sa.Integer()),
    "float": lambda: sa.Float(),
    "double": lambda: sa.Double(),
    "decimal": lambda: sa.DECIMAL(10, 2),
})
TYPE_PAIRS = [("str50", "str"), ("num10", "numeric"), ("str20", "str20_coll"), ("int", "int_arr"),
              ("float", "double"), ("decimal", "numeric"), ("str20", "str50")]


def type_ok(dialect, key):
    """can SQLAlchemy compile the type for the dialect at all (VARCHAR without length on mysql, ARRAY outside pg)"""
    try:
        type_token(dialect, key)
        return True
    except Exception:
        return False


class _DecEnum(sa.TypeDecorator):
    """a TypeDecorator whose impl owns a CHECK constraint"""

    impl = sa.Enum("p", "q", name="en3", native_enum=False, create_constraint=True)
    cache_ok = True


class _DecBool(sa.TypeDecorator):
    impl = sa.Boolean(create_constraint=True, name="ck_b3")
    cache_ok = True


def _other(dialect):
    return "mysql" if dialect == "oracle" else "oracle"


# constraint-owning schema types reached indirectly: as the impl of a TypeDecorator, or as the variant of a plain type
# for the dialect under test ("here") resp. -- control: no constraint may appear -- for another dialect ("other").
# These take the dialect name.
TYPES_D = {
    "dec_enum": lambda d: _DecEnum(),
    "dec_bool": lambda d: _DecBool(),
    "var_enum_here": lambda d: sa.String(10).with_variant(
        sa.Enum("u", "v", name="en4", native_enum=False, create_constraint=True), d),
    "var_bool_here": lambda d: sa.Integer().with_variant(sa.Boolean(create_constraint=True, name="ck_b4"), d),
    "var_enum_other": lambda d: sa.String(10).with_variant(
        sa.Enum("u", "v", name="en5", native_enum=False, create_constraint=True), _other(d)),
}
TYPE_KEYS_CK_WRAPPED = ["dec_enum", "dec_bool", "var_enum_here", "var_bool_here", "var_enum_other"]


def make_type(key, dialect):
    if key in TYPES_D:
        return TYPES_D[key](dialect)
    return TYPES[key]()
TYPE_KEYS_COMMON = ["int", "str20", "text", "dt", "numeric", "bool"]
TYPE_KEYS_CK = ["bool_ck", "bool_ck2", "bool_anon", "enum_ck", "enum_nn"]

DEFAULTS = {
    "five": lambda: "5",
    "abc": lambda: "abc",
    "now": lambda: sa.text("CURRENT_TIMESTAMP"),
    "expr": lambda: sa.text("(1 + 2)"),
    "id0": lambda: Identity(),
    "id_a2": lambda: Identity(always=True, start=2),
    "id_3": lambda: Identity(start=3),
    "id_a": lambda: Identity(always=True),
    "comp": lambda: Computed("c9 + 1"),
    # further spellings of a plain server default: empty string (falsy), SQL function, DefaultClause
    "empty": lambda: "",
    "fnow": lambda: sa.func.now(),
    "dclause": lambda: sa.DefaultClause("7"),
}
DEFAULT_KEYS_PLAIN_EXTRA = ["empty", "fnow", "dclause"]
# SQL-expression defaults that contain Python literals: they have to be rendered with the values bound in
# (never with a bind placeholder)
DEFAULTS.update({
    "coalesce": lambda: sa.func.coalesce(sa.column("other"), 0),
    "concat": lambda: sa.func.concat("ab", "cd"),
    "cast0": lambda: sa.cast(0, sa.Integer),
    "lit42": lambda: sa.literal(42),
    "dc_coalesce": lambda: sa.DefaultClause(sa.func.coalesce(sa.column("other"), 7)),
    "dc_lit": lambda: sa.DefaultClause(sa.literal("x1")),
})
DEFAULT_KEYS_EXPR = ["coalesce", "concat", "cast0", "lit42", "dc_coalesce", "dc_lit"]
DEFAULT_KEYS_PLAIN_EXTRA += DEFAULT_KEYS_EXPR
DEFAULT_KEYS_PLAIN = ["five", "abc", "now", "expr"]
DEFAULT_KEYS_IDENTITY = ["id0", "id_a2", "id_3", "id_a"]
DEFAULT_KEYS_COMPUTED = ["comp"]
_IDENT = {"id0": (False, None), "id_a2": (True, 2), "id_3": (False, 3), "id_a": (True, None)}
# identities with further options (the extra options as the model sees them: (attribute, value) sorted by attribute)
_IDENT_KW = {
    "id_nomin": dict(nominvalue=True),
    "id_nomax_cyc": dict(nomaxvalue=True, cycle=True),
    "id_full": dict(always=True, start=2, nominvalue=True, nomaxvalue=True, cache=5),
    "id_minmax": dict(minvalue=1, maxvalue=99, increment=2),
    "id_cyc": dict(cycle=True, cache=5),
}
for _k, _kw in _IDENT_KW.items():
    DEFAULTS[_k] = (lambda kw: (lambda: Identity(**kw)))(_kw)
    _IDENT[_k] = (bool(_kw.get("always")), _kw.get("start"))
DEFAULT_KEYS_IDENTITY += list(_IDENT_KW)


def ident_extra(key):
    kw = _IDENT_KW.get(key, {})
    return sorted([k, str(v)] for k, v in kw.items() if k not in ("always", "start"))

COMMENTS = ["hello", "second note", "x", ""]
# column names of the identifier-quoting classes (mixed case, reserved word, space, quote character, bracket)
QUOTED_NAMES = ["Balance", "order", "my col", "it's", "c1"]
_CLOSE = {"dq": 'a"b', "bt": "a`b", "br": "a]b"}  # a name containing the dialect's closing delimiter
QUOTED_TABLES = ["t1", "My Table", "select"]
QUOTED_SCHEMAS = [None, "s1", "My Schema"]


def quoted_names(dialect):
    return QUOTED_NAMES + [_CLOSE[_QKIND[dialect]]]
NEW_NAMES = ["c2", "c3", "c1"]  # c1 = rename to the same name

# ---------------------------------------------------------------------------------------------
# contexts (one per dialect, the output buffer is swapped per call)

_CTX = {}

# configuration variants of the migration context (the statements must not depend on them)
CONFIGS = {
    None: {},
    "alt": {"literal_binds": True, "transactional_ddl": False, "mssql_batch_separator": "", "oracle_batch_separator": ""},
    "tddl": {"transactional_ddl": True, "mssql_batch_separator": "GO", "oracle_batch_separator": "/"},
}


def context(dialect, config=None):
    key = (dialect, config)
    if key not in _CTX:
        buf = io.StringIO()
        opts = {"as_sql": True, "output_buffer": buf, **CONFIGS[config]}
        if dialect == "default":
            ctx = MigrationContext.configure(dialect=DefaultDialect(), opts=opts)
        else:
            ctx = MigrationContext.configure(dialect_name=dialect, opts=opts)
        _CTX[key] = (ctx, Operations(ctx))
    return _CTX[key]


def _sa_dialect(dialect):
    return context(dialect)[0].impl.dialect


_TY_CACHE = {}


def type_token(dialect, key):
    """the model's view of a type: compiled text + the flags the code looks at"""
    if key is None:
        return None
    ck = (dialect, key)
    if ck not in _TY_CACHE:
        d = _sa_dialect(dialect)
        raw = make_type(key, dialect)
        t = sqltypes.to_instance(raw)
        name = d.type_compiler_instance.process(t) if hasattr(d, "type_compiler_instance") else d.type_compiler.process(t)
        # SQLAlchemy's schema-type rule: which CHECK constraint the type attaches to a column and
        # whether its create rule fires for this dialect (same test as toimpl._count_constraint)
        compiler = d.statement_compiler(d, None)
        tbl = sa.Table("t1", sa.MetaData(), sa.Column("c1", make_type(key, dialect)))
        cks = [
            c
            for c in tbl.constraints
            if not isinstance(c, sa.PrimaryKeyConstraint) and (not c._create_rule or c._create_rule(compiler))
        ]
        assert len(cks) <= 1
        tok = {
            "name": name,
            # MySQLImpl._is_mysql_allowed_functional_default reads `_type_affinity` of the object as passed:
            # on a type class that is a property object, never `DateTime`
            "dt": getattr(raw, "_type_affinity", None) is sqltypes.DateTime,
            "ck": None if not cks else {"name": (str(cks[0].name) if isinstance(cks[0].name, str) else None)},
        }
        _TY_CACHE[ck] = tok
    return _TY_CACHE[ck]


_DF_CACHE = {}


def default_token(dialect, key):
    ck = (dialect, key)
    if ck not in _DF_CACHE:
        if key in _IDENT:
            a, s = _IDENT[key]
            tok = {"kind": "identity", "always": a, "start": s, "extra": ident_extra(key)}
        elif key in DEFAULT_KEYS_COMPUTED:
            tok = {"kind": "computed", "text": "c9 + 1"}
        else:
            # the dialect's own literal-bound rendering of the default, computed with SQLAlchemy only (not through
            # alembic's format_server_default): a string is a string literal, an expression is compiled with the
            # values bound in
            d = _sa_dialect(dialect)
            v = DEFAULTS[key]()
            if isinstance(v, sa.DefaultClause):
                v = v.arg
            if isinstance(v, str):
                text = d.statement_compiler(d, None).render_literal_value(v, sqltypes.String())
            else:
                text = str(v.compile(dialect=d, compile_kwargs={"literal_binds": True}))
            # cross-check with SQLAlchemy's DDL compiler (what CREATE TABLE would render)
            ddl_text = d.ddl_compiler(d, None).get_column_default_string(
                sa.Column("x", sa.Integer, server_default=DEFAULTS[key]()))
            assert text == ddl_text, (dialect, key, text, ddl_text)
            tok = {"kind": "plain", "text": text}
        _DF_CACHE[ck] = tok
    return _DF_CACHE[ck]


def _tri_lean(dialect, tri, conv):
    if tri is None or tri["k"] == "unset":
        return {"k": "unset"}
    if tri["k"] == "drop":
        return {"k": "drop"}
    return {"k": "set", "v": conv(dialect, tri["v"])}


def to_lean(dialect, req):
    return {
        "table": req["table"],
        "column": req["column"],
        "schema": schema_text(req.get("schema")),
        "type": type_token(dialect, req.get("type")),
        "nullable": req.get("nullable"),
        "server_default": _tri_lean(dialect, req.get("server_default"), default_token),
        "new_name": req.get("new_name"),
        "comment": _tri_lean(dialect, req.get("comment"), lambda d, v: v),
        "autoinc": req.get("autoinc"),
        "ex_type": type_token(dialect, req.get("ex_type")),
        "ex_nullable": req.get("ex_nullable"),
        "ex_default": _tri_lean(dialect, req.get("ex_default"), default_token),
        "ex_comment": req.get("ex_comment"),
        "ex_autoinc": req.get("ex_autoinc"),
        "using": req.get("using"),
    }


def schema_text(schema):
    """'qn:s1' stands for sqlalchemy quoted_name('s1', quote=False)"""
    if isinstance(schema, str) and schema.startswith("qn:"):
        return schema[3:]
    return schema


def to_kwargs(req, dialect=None):
    kw = {}
    if req.get("schema") is not None:
        sch = req["schema"]
        kw["schema"] = quoted_name(sch[3:], quote=False) if sch.startswith("qn:") else sch
    if req.get("type") is not None:
        kw["type_"] = make_type(req["type"], dialect)
    if req.get("nullable") is not None:
        kw["nullable"] = req["nullable"]
    sd = req.get("server_default") or {"k": "unset"}
    if sd["k"] == "drop":
        kw["server_default"] = None
    elif sd["k"] == "set":
        kw["server_default"] = DEFAULTS[sd["v"]]()
    if req.get("new_name") is not None:
        kw["new_column_name"] = req["new_name"]
    cm = req.get("comment") or {"k": "unset"}
    if cm["k"] == "drop":
        kw["comment"] = None
    elif cm["k"] == "set":
        kw["comment"] = cm["v"]
    if req.get("autoinc") is not None:
        kw["autoincrement"] = req["autoinc"]
    if req.get("ex_type") is not None:
        kw["existing_type"] = make_type(req["ex_type"], dialect)
    if req.get("ex_nullable") is not None:
        kw["existing_nullable"] = req["ex_nullable"]
    ed = req.get("ex_default") or {"k": "unset"}
    if ed["k"] == "drop":
        kw["existing_server_default"] = None
    elif ed["k"] == "set":
        kw["existing_server_default"] = DEFAULTS[ed["v"]]()
    if req.get("ex_comment") is not None:
        kw["existing_comment"] = req["ex_comment"]
    if req.get("ex_autoinc") is not None:
        kw["existing_autoincrement"] = req["ex_autoinc"]
    if req.get("using") is not None:
        kw["postgresql_using"] = req["using"]
    return kw


def run_impl(dialect, req):
    """-> {"text": emitted script, "err": exception class name | None, "msg": str}"""
    ctx, op = context(dialect, req.get("config"))
    buf = io.StringIO()
    ctx.impl.output_buffer = buf
    err = None
    msg = ""
    with warnings.catch_warnings():
        warnings.simplefilter("ignore")
        try:
            op.alter_column(req["table"], req["column"], **to_kwargs(req, dialect))
        except Exception as e:  # every exception class is data here
            err = type(e).__name__
            msg = str(e)[:160]
    return {"text": buf.getvalue(), "err": err, "msg": msg}


# ---------------------------------------------------------------------------------------------
# statement parsers

# identifier tokens per dialect: a bare word or a delimited identifier (close delimiter doubled inside)
_Q = {
    "dq": r'(?:"(?:[^"]|"")+"|\w+)',      # default, sqlite, postgresql, oracle
    "bt": r"(?:`(?:[^`]|``)+`|\w+)",      # mysql, mariadb
    "br": r"(?:\[(?:[^\]]|\]\])+\]|\w+)",  # mssql
}
_QKIND = {"default": "dq", "sqlite": "dq", "postgresql": "dq", "oracle": "dq", "mysql": "bt", "mariadb": "bt", "mssql": "br"}


def _unq_ident(kind, tok):
    """the name an identifier token denotes"""
    if tok is None:
        return None
    if kind == "dq" and tok.startswith('"'):
        return tok[1:-1].replace('""', '"')
    if kind == "bt" and tok.startswith("`"):
        return tok[1:-1].replace("``", "`")
    if kind == "br" and tok.startswith("["):
        return tok[1:-1].replace("]]", "]")
    return tok


# set by parse_statement for the dialect being parsed
_KIND = "dq"
ID = "(%s)" % _Q["dq"]
TREF = r"(?:(%s)\.)?(%s)" % (_Q["dq"], _Q["dq"])


def _set_dialect(dialect):
    global _KIND, ID, TREF
    _KIND = _QKIND[dialect]
    q = _Q[_KIND]
    ID = "(%s)" % q
    TREF = r"(?:(%s)\.)?(%s)" % (q, q)


def _U(tok):
    return _unq_ident(_KIND, tok)



def split_statements(dialect, text):
    out = []
    for chunk in re.split(r"\n\s*\n", text):
        c = chunk.strip()
        if not c:
            continue
        if dialect == "mssql" and c == "GO":
            continue
        if dialect == "oracle" and c == "/":
            continue
        if dialect != "oracle" and c.endswith(";"):
            c = c[:-1]
        out.append(c)
    return out


def _unq(lit):
    """'it''s' -> it's ; None when not a plain literal"""
    if len(lit) >= 2 and lit[0] == "'" and lit[-1] == "'":
        body = lit[1:-1]
        if re.search(r"(?<!')'(?!')", body.replace("''", "")):
            return None
        return body.replace("''", "'")
    return None


def _t(m, i=1):
    return {"schema": _U(m.group(i)), "table": _U(m.group(i + 1))}


_IDENT_CLAUSE = r"(?:START WITH \d+|INCREMENT BY \d+|MINVALUE \d+|MAXVALUE \d+|NO ?MINVALUE|NO ?MAXVALUE|CACHE \d+|NO ?CYCLE|CYCLE)"


def _ident_clause(text):
    """one identity option clause -> (attribute, value)"""
    t = text.replace(" ", "")
    if t == "NOMINVALUE":
        return "nominvalue", "True"
    if t == "NOMAXVALUE":
        return "nomaxvalue", "True"
    if t == "CYCLE":
        return "cycle", "True"
    if t == "NOCYCLE":
        return "cycle", "False"
    word, num = text.rsplit(" ", 1)
    return {"START WITH": "start", "INCREMENT BY": "increment", "MINVALUE": "minvalue", "MAXVALUE": "maxvalue",
            "CACHE": "cache"}[word], num


def _ident_opts(s):
    """'(START WITH 2 NO MINVALUE CYCLE)' | '' | None -> (ok, start, extra sorted by attribute)"""
    if not s:
        return True, None, []
    body = s.strip()[1:-1].strip()
    if not re.fullmatch(r"%s(?: %s)*" % (_IDENT_CLAUSE, _IDENT_CLAUSE), body):
        return False, None, []
    start = None
    extra = []
    for c in re.findall(_IDENT_CLAUSE, body):
        k, v = _ident_clause(c)
        if k == "start":
            start = int(v)
        else:
            extra.append([k, v])
    return True, start, sorted(extra)


def _constraint_stmts(s):
    m = re.fullmatch(r"ALTER TABLE %s DROP CONSTRAINT (\w+)" % TREF, s)
    if m:
        return {"k": "dropConstraint", **_t(m), "name": m.group(3)}
    m = re.fullmatch(r"ALTER TABLE %s ADD (?:CONSTRAINT (\w+) )?CHECK \(%s IN \(.*\)\)" % (TREF, ID), s)
    if m:
        return {"k": "addConstraint", **_t(m), "name": m.group(3), "col": _U(m.group(4))}
    return None


def _parse_generic(s, rename_kw, pg):
    """default / sqlite / postgresql grammar"""
    A = r"ALTER TABLE %s ALTER COLUMN %s" % (TREF, ID)
    m = re.fullmatch(A + r" (SET|DROP) NOT NULL", s)
    if m:
        return {"k": "nullable", **_t(m), "col": _U(m.group(3)), "n": m.group(4) == "DROP"}
    m = re.fullmatch(A + r" DROP DEFAULT", s)
    if m:
        return {"k": "default", **_t(m), "col": _U(m.group(3)), "d": None}
    m = re.fullmatch(A + r" SET DEFAULT (.+)", s)
    if m:
        return {"k": "default", **_t(m), "col": _U(m.group(3)), "d": m.group(4)}
    if pg:
        m = re.fullmatch(A + r" TYPE (.+?) USING (.+)", s)
        if m:
            return {"k": "type", **_t(m), "col": _U(m.group(3)), "ty": m.group(4), "using": m.group(5)}
    m = re.fullmatch(A + r" TYPE (.+)", s)
    if m:
        return {"k": "type", **_t(m), "col": _U(m.group(3)), "ty": m.group(4), "using": None}
    m = re.fullmatch(r"ALTER TABLE %s RENAME %s%s TO %s" % (TREF, rename_kw, ID, ID), s)
    if m:
        return {"k": "rename", **_t(m), "col": _U(m.group(3)), "new": _U(m.group(4))}
    if pg:
        m = re.fullmatch(r"COMMENT ON COLUMN %s\.%s IS (NULL|'.*')" % (TREF, ID), s, re.S)
        if m:
            c = None if m.group(4) == "NULL" else _unq(m.group(4))
            if m.group(4) != "NULL" and c is None:
                return None
            return {"k": "comment", **_t(m), "col": _U(m.group(3)), "c": c}
        m = re.fullmatch(A + r" DROP IDENTITY", s)
        if m:
            return {"k": "identityDrop", **_t(m), "col": _U(m.group(3))}
        m = re.fullmatch(A + r" ADD GENERATED (ALWAYS|BY DEFAULT) AS IDENTITY ?(\(.*\))?", s)
        if m:
            ok, start, extra = _ident_opts(m.group(5))
            if ok:
                return {"k": "identityAdd", **_t(m), "col": _U(m.group(3)), "always": m.group(4) == "ALWAYS", "start": start,
                        "extra": extra}
        m = re.fullmatch(A + r"((?: SET (?:GENERATED (?:ALWAYS|BY DEFAULT)|%s))*)" % _IDENT_CLAUSE, s)
        if m:
            parts = re.findall(r" SET (GENERATED (?:ALWAYS|BY DEFAULT)|%s)" % _IDENT_CLAUSE, m.group(4))
            always = None
            start = None
            extra = []  # in the order emitted (the code emits sorted(diff): always, the other attributes, start)
            ok = True
            for i, p in enumerate(parts):
                if p.startswith("GENERATED"):
                    ok = ok and i == 0
                    always = p.endswith("ALWAYS")
                else:
                    k, v = _ident_clause(p)
                    if k == "start":
                        start = int(v)
                    else:
                        extra.append([k, v])
            if ok:
                return {"k": "identityAlter", **_t(m), "col": _U(m.group(3)), "always": always, "start": start, "extra": extra}
    return _constraint_stmts(s)


def _mysql_colspec(spec):
    m = re.fullmatch(
        r"(?P<ty>.+?) (?P<null>NOT NULL|NULL)(?P<ai> AUTO_INCREMENT)?(?: DEFAULT (?P<d>.+?))?(?: COMMENT (?P<c>'.*'))?",
        spec,
        re.S,
    )
    if not m:
        return None
    c = None
    if m.group("c") is not None:
        c = _unq(m.group("c"))
        if c is None:
            return None
    return {"ty": m.group("ty"), "n": m.group("null") == "NULL", "ai": m.group("ai") is not None, "d": m.group("d"), "c": c}


def _parse_mysql(s):
    m = re.fullmatch(r"ALTER TABLE %s CHANGE %s %s (.+)" % (TREF, ID, ID), s, re.S)
    if m:
        cs = _mysql_colspec(m.group(5))
        if cs:
            return {"k": "mysqlChange", **_t(m), "col": _U(m.group(3)), "new": _U(m.group(4)), **cs}
    m = re.fullmatch(r"ALTER TABLE %s MODIFY %s (.+)" % (TREF, ID), s, re.S)
    if m:
        cs = _mysql_colspec(m.group(4))
        if cs:
            return {"k": "mysqlModify", **_t(m), "col": _U(m.group(3)), **cs}
    A = r"ALTER TABLE %s ALTER COLUMN %s" % (TREF, ID)
    m = re.fullmatch(A + r" DROP DEFAULT", s)
    if m:
        return {"k": "default", **_t(m), "col": _U(m.group(3)), "d": None}
    m = re.fullmatch(A + r" SET DEFAULT (.+)", s)
    if m:
        return {"k": "default", **_t(m), "col": _U(m.group(3)), "d": m.group(4)}
    return _constraint_stmts(s)


# MSSQL: names embedded in T-SQL string literals have ' doubled.
LIT = r"'((?:[^']|'')*)'"


def _unlit(body):
    """the string a T-SQL string literal body denotes"""
    return body.replace("''", "'")


_MSSQL_DROP = re.compile(
    r"declare @const_name varchar\(256\)\n"
    r"select @const_name = QUOTENAME\(\[name\]\) from sys\.default_constraints\n"
    r"where parent_object_id = object_id\(%s\)\n"
    r"and col_name\(parent_object_id, parent_column_id\) = %s\n"
    r"exec\('alter table ((?:[^']|'')*) drop constraint ' \+ @const_name\)" % (LIT, LIT)
)


def _object_id_ref(text):
    """the table an object_id('...') argument denotes: either bracketed parts ([s].[t]) or -- what the code embeds --
    the raw names joined by '.' (pool names contain no '.')"""
    m = re.fullmatch(r"(?:(\[(?:[^\]]|\]\])+\])\.)?(\[(?:[^\]]|\]\])+\])", text)
    if m:
        return {"objSchema": _U(m.group(1)), "objTable": _U(m.group(2))}
    parts = text.split(".")
    if len(parts) == 1:
        return {"objSchema": None, "objTable": parts[0]}
    if len(parts) == 2:
        return {"objSchema": parts[0], "objTable": parts[1]}
    return None


def _parse_mssql(s):
    m = _MSSQL_DROP.fullmatch(s)
    if m:
        # three names inside string literals: the table object_id() looks up, the string col_name() is compared
        # with (kept verbatim after undoing the literal escaping: it has to BE the column name), and the table of
        # the inner ALTER TABLE.  All three go to the model comparison and to the Lean spec.
        obj = _object_id_ref(_unlit(m.group(1)))
        inner = re.fullmatch(TREF, _unlit(m.group(3)))
        if not obj or not inner:
            return None
        return {"k": "mssqlDropDefault", **_t(inner), **obj, "col": _unlit(m.group(2))}
    m = re.fullmatch(r"EXEC sp_rename %s, %s, 'COLUMN'" % (LIT, ID), s)
    if m:
        inner = re.fullmatch(r"%s\.%s" % (TREF, ID), _unlit(m.group(1)))
        if not inner:
            return None
        return {"k": "rename", **_t(inner), "col": _U(inner.group(3)), "new": _U(m.group(2))}
    m = re.fullmatch(r"ALTER TABLE %s ADD DEFAULT (.+) FOR %s" % (TREF, ID), s)
    if m:
        return {"k": "mssqlAddDefault", **_t(m), "col": _U(m.group(4)), "d": m.group(3)}
    m = re.fullmatch(r"ALTER TABLE %s ALTER COLUMN %s (.+?)( NOT NULL| NULL)?" % (TREF, ID), s)
    if m:
        n = None if m.group(5) is None else (m.group(5).strip() == "NULL")
        return {"k": "mssqlAlter", **_t(m), "col": _U(m.group(3)), "ty": m.group(4), "n": n}
    return _constraint_stmts(s)


def _parse_oracle(s):
    M = r"ALTER TABLE %s MODIFY %s" % (TREF, ID)
    m = re.fullmatch(M + r" (NOT NULL|NULL)", s)
    if m:
        return {"k": "nullable", **_t(m), "col": _U(m.group(3)), "n": m.group(4) == "NULL"}
    m = re.fullmatch(M + r" DEFAULT (.+)", s)
    if m:
        d = m.group(4)
        return {"k": "default", **_t(m), "col": _U(m.group(3)), "d": None if d == "NULL" else d}
    m = re.fullmatch(M + r" DROP IDENTITY", s)
    if m:
        return {"k": "identityDrop", **_t(m), "col": _U(m.group(3))}
    m = re.fullmatch(M + r" GENERATED (ALWAYS|BY DEFAULT) AS IDENTITY ?(\(.*\))?", s)
    if m:
        ok, start, extra = _ident_opts(m.group(5))
        if ok:
            return {"k": "identitySet", **_t(m), "col": _U(m.group(3)), "always": m.group(4) == "ALWAYS", "start": start,
                    "extra": extra}
        return None
    m = re.fullmatch(r"ALTER TABLE %s RENAME COLUMN %s TO %s" % (TREF, ID, ID), s)
    if m:
        return {"k": "rename", **_t(m), "col": _U(m.group(3)), "new": _U(m.group(4))}
    m = re.fullmatch(r"COMMENT ON COLUMN %s\.%s IS ('.*')" % (TREF, ID), s, re.S)
    if m:
        c = _unq(m.group(4))
        if c is None:
            return None
        return {"k": "comment", **_t(m), "col": _U(m.group(3)), "c": c}
    r = _constraint_stmts(s)
    if r:
        return r
    m = re.fullmatch(M + r" (.+)", s)
    if m:
        return {"k": "type", **_t(m), "col": _U(m.group(3)), "ty": m.group(4), "using": None}
    return None


def parse_statement(dialect, s):
    _set_dialect(dialect)
    if dialect == "default":
        return _parse_generic(s, "", False)
    if dialect == "sqlite":
        return _parse_generic(s, "COLUMN ", False)
    if dialect == "postgresql":
        return _parse_generic(s, "", True)
    if dialect in ("mysql", "mariadb"):
        return _parse_mysql(s)
    if dialect == "mssql":
        return _parse_mssql(s)
    if dialect == "oracle":
        return _parse_oracle(s)
    raise ValueError(dialect)


def parse_script(dialect, text):
    """-> (list of Stmt dicts, list of statements that no rule of the dialect's grammar accepts)"""
    stmts = []
    unknown = []
    for s in split_statements(dialect, text):
        p = parse_statement(dialect, s)
        if p is None:
            unknown.append(s)
            stmts.append({"k": "unparsed", "text": s})
        else:
            stmts.append(p)
    return stmts, unknown


def canon_stmt(st):
    """the model's JSON statement with absent optional fields as None (for comparison)"""
    return {k: v for k, v in st.items()}
