"""C14 generators: identifier classes, schema kinds, op templates per dialect."""
from __future__ import annotations

import string

# the classes the property quantifies over (+ the initial-character ones) ...
CLASSES = ["plain", "reserved", "mixed", "space", "qchar", "squote", "nonascii", "digit", "underscore", "dollar", "edge"]
# ... and classes outside its list that the generator also exercises (known findings live here)
EXTRA_CLASSES = ["percent", "tab"]

SCHEMA_KINDS = ["none", "plain", "quoting", "dotted", "qn"]

NONASCII = "éßñüøçДжλ表名ı"
EDGE = ["a", "ſ", "ı", "a$", "x.y", "a-b", "a#b", "@x", "#t", "K", "İx", "a:b", "a;b", "a--b", "a/*b*/", "a\\b", "\"", "`",
        "[", "]", "]]", "\"\"", " a", "a ", "a\nb", "a\rb", "\xa0", "😀", "a(b)", "a,b", "a=b", "null", "a\x00b", "-", ".", "a..b"]


def word(rng, lo=1, hi=8):
    n = rng.randint(lo, hi)
    return rng.choice(string.ascii_lowercase) + "".join(rng.choice(string.ascii_lowercase + "0123456789_") for _ in range(n - 1))


def plain(rng, reserved_words):
    for _ in range(50):
        w = word(rng, 2, 9)
        if w not in reserved_words:
            return w
    return "zzq_" + word(rng)


def insert(rng, w, s):
    i = rng.randint(0, len(w))
    return w[:i] + s + w[i:]


def gen_name(rng, cls, close_q, open_q, reserved_words, for_schema=False):
    w = plain(rng, reserved_words)
    if cls == "plain":
        return w
    if cls == "reserved":
        r = rng.choice(sorted(reserved_words))
        return r.upper() if rng.random() < 0.2 else r
    if cls == "mixed":
        i = rng.randrange(len(w))
        v = w[:i] + w[i].upper() + w[i + 1:]
        return v if v != w else "X" + w
    if cls == "space":
        return w + " " + word(rng)
    if cls == "qchar":
        s = rng.choice([close_q, close_q, close_q * 2, open_q + close_q, close_q + open_q, open_q])
        if close_q not in s:
            s += close_q
        return insert(rng, w, s)
    if cls == "squote":
        return insert(rng, w, rng.choice(["'", "'", "''", "'" + close_q]))
    if cls == "nonascii":
        return insert(rng, w, rng.choice(NONASCII))
    if cls == "digit":
        return rng.choice(string.digits) + (w if rng.random() < 0.8 else "")
    if cls == "underscore":
        return "_" + (w if rng.random() < 0.8 else "")
    if cls == "dollar":
        return ("$" + w) if rng.random() < 0.6 else insert(rng, w, "$")
    if cls == "edge":
        if rng.random() < 0.3:   # a name that literally contains a dot
            return gen_name(rng, "dotname", close_q, open_q, reserved_words, for_schema)
        for _ in range(20):
            e = rng.choice(EDGE)
            if not (for_schema and (e.startswith(".") or e.endswith(".") or ".." in e)):
                return e
        return "a"
    if cls == "dotname":   # a name that literally contains a dot (e.g. schema `corp.sales`)
        return w + "." + (word(rng) if rng.random() < 0.7 else gen_name(rng, rng.choice(["mixed", "space", "reserved"]), close_q, open_q, reserved_words, True))
    if cls == "percent":
        return insert(rng, w, rng.choice(["%", "%", "%%", " %"]))
    if cls == "tab":
        return insert(rng, w, "\t")
    raise ValueError(cls)


def arg_kind(rng, name, cls):
    """The KIND of a table / column / schema argument: plain str, or sqlalchemy quoted_name with quote=None (what
    Table.name / Table.schema / Column.name hold), quote=True, quote=False (only for names that need no quoting)."""
    r = rng.random()
    if r < 0.5:
        return name
    if r < 0.8:
        return {"s": name, "q": None}
    if r < 0.92 or cls != "plain":
        return {"s": name, "q": True}
    return {"s": name, "q": False}


def gen_schema(rng, kind, close_q, open_q, reserved_words, classes):
    if kind == "none":
        return None
    if kind == "plain":
        return plain(rng, reserved_words)
    if kind == "quoting":
        # needs-quoting str, dotted str (multi-part by design), or a quoted_name (ONE identifier, dots included) as a
        # Table.schema would be
        r = rng.random()
        if r < 0.2:
            return gen_schema(rng, "dotted", close_q, open_q, reserved_words, classes)
        if r < 0.4:
            return gen_schema(rng, "qn", close_q, open_q, reserved_words, classes)
        cls = rng.choice([c for c in classes if c not in ("plain", "edge", "dotname")] or ["mixed"])
        return gen_name(rng, cls, close_q, open_q, reserved_words, for_schema=True)
    if kind == "dotted":
        a = gen_name(rng, rng.choice(["plain", "mixed", "space", "reserved"]), close_q, open_q, reserved_words, True)
        b = gen_name(rng, rng.choice(["plain", "mixed", "qchar"]), close_q, open_q, reserved_words, True)
        return a + "." + b
    if kind == "qn":
        r = rng.random()
        if r < 0.25:
            return {"s": plain(rng, reserved_words), "q": rng.choice([True, None, False])}
        if r < 0.7:   # a schema literally named `corp.sales`, as SQLAlchemy stores Table.schema (quote=None) or forced
            return {"s": gen_name(rng, "dotname", close_q, open_q, reserved_words, True), "q": rng.choice([None, None, True])}
        return {"s": gen_name(rng, rng.choice(["mixed", "space", "qchar", "reserved"]), close_q, open_q, reserved_words, True),
                "q": rng.choice([None, True])}
    raise ValueError(kind)


# op templates: (key, dialects, slots, builder(names, schema, rng) -> op description)
def _alter(kw_fn):
    def b(n, schema, rng):
        return {"op": "alter_column", "t": n["t"], "col": n["col"], "schema": schema, "kw": kw_fn(n, rng)}
    return b


TY = ["INTEGER", "VARCHAR50", "NUMERIC", "DATETIME", "TEXT"]
DF = ["zero", "str", "strq", "now", "expr"]
ALL = ["sqlite", "postgresql", "mysql", "mariadb", "mssql", "oracle"]

TEMPLATES = [
    ("rename_table", ALL, ["t", "new"],
     lambda n, s, rng: {"op": "rename_table", "t": n["t"], "new": n["new"], "schema": s}),
    ("add_column", ALL, ["t", "col"],
     lambda n, s, rng: {"op": "add_column", "t": n["t"], "col": n["col"], "schema": s, "type": rng.choice(TY),
                        "kw": rng.choice([{}, {"nullable": False}, {"server_default": rng.choice(DF)}])}),
    ("drop_column", ALL, ["t", "col"],
     lambda n, s, rng: {"op": "drop_column", "t": n["t"], "col": n["col"], "schema": s}),
    ("alter_nullable", ALL, ["t", "col"],
     _alter(lambda n, rng: {"nullable": rng.random() < 0.5, "existing_type": rng.choice(TY)})),
    ("alter_type", ALL, ["t", "col"],
     _alter(lambda n, rng: {"type_": rng.choice(TY), "existing_nullable": rng.choice([None, True, False]),
                            "existing_type": rng.choice(TY)})),
    ("alter_type_using", ["postgresql"], ["t", "col"],
     _alter(lambda n, rng: {"type_": rng.choice(TY), "postgresql_using": rng.choice(["col::integer", "cast(x as int)", ""])})),
    ("alter_name", ALL, ["t", "col", "new"],
     _alter(lambda n, rng: {"new_column_name": n["new"], "existing_type": rng.choice(TY),
                            "existing_nullable": rng.choice([None, True, False])})),
    ("alter_default_set", ALL, ["t", "col"],
     _alter(lambda n, rng: {"server_default": rng.choice(DF), "existing_type": rng.choice(TY)})),
    ("alter_default_drop", ALL, ["t", "col"],
     _alter(lambda n, rng: {"server_default": None, "existing_type": rng.choice(TY)})),
    ("alter_comment", ["postgresql", "mysql", "mariadb", "oracle"], ["t", "col"],
     _alter(lambda n, rng: {"comment": rng.choice(["a comment", "it's", None, "tab\\x", "50% off"]),
                            "existing_type": rng.choice(TY), "existing_nullable": rng.choice([None, False])})),
    ("alter_many", ALL, ["t", "col", "new"],
     _alter(lambda n, rng: {"new_column_name": n["new"], "nullable": rng.random() < 0.5, "type_": rng.choice(TY),
                            "server_default": rng.choice(DF + [None]), "existing_type": rng.choice(TY)})),
    ("mysql_autoinc", ["mysql", "mariadb"], ["t", "col"],
     _alter(lambda n, rng: {"autoincrement": True, "existing_type": "INTEGER", "existing_nullable": False,
                            "existing_server_default": rng.choice([None, "zero"]), "existing_comment": rng.choice([None, "c'm"])})),
    ("mssql_drop_column_full", ["mssql"], ["t", "col"],
     lambda n, s, rng: {"op": "drop_column", "t": n["t"], "col": n["col"], "schema": s,
                        "kw": {"mssql_drop_default": True, "mssql_drop_check": True, "mssql_drop_foreign_key": True}}),
    ("identity_add", ["postgresql", "oracle"], ["t", "col"],
     _alter(lambda n, rng: {"server_default": "identity", "existing_server_default": None})),
    ("identity_drop", ["postgresql", "oracle"], ["t", "col"],
     _alter(lambda n, rng: {"server_default": None, "existing_server_default": "identity"})),
    ("drop_check", ["mysql", "mariadb"], ["t", "cname"],
     lambda n, s, rng: {"op": "drop_constraint", "cname": n["cname"], "t": n["t"], "schema": s, "type_": "check"}),
    ("drop_fk", ["mysql", "mariadb"], ["t", "cname"],
     lambda n, s, rng: {"op": "drop_constraint", "cname": n["cname"], "t": n["t"], "schema": s, "type_": "foreignkey"}),
    ("drop_unique", ["mysql", "mariadb"], ["t", "cname"],
     lambda n, s, rng: {"op": "drop_constraint", "cname": n["cname"], "t": n["t"], "schema": s, "type_": "unique"}),
    ("drop_pk", ["mysql", "mariadb"], ["t", "cname"],
     lambda n, s, rng: {"op": "drop_constraint", "cname": n["cname"], "t": n["t"], "schema": s, "type_": "primary"}),
]
