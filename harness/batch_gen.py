"""Generators of the batch workstream: abstract tables, rows, batch operation sequences."""
from __future__ import annotations

import re

from .batch_impl import TYPE_TOKENS, aff_of_token, default_value

INTS = ["INTEGER", "BIGINT", "SMALLINT"]
STRS = ["VARCHAR(20)", "VARCHAR(50)", "TEXT"]
COLPOOL = ["a", "b", "c", "d", "e", "f", "g", "h"]
NEWPOOL = ["n1", "n2", "n3", "n4"]
TEXTS = ["", "x", "it's", 'say "hi"', "ünï©ødé ✓", "line\nbreak", "  pad ", "123", "1e3", "NULL",
         "%s;--", "a,b", "中文", "\U0001F600", "tab\there", "back\\slash", "O''Brien"]
DEFAULTS = {"int": ["0", "7", "-1"], "str": ["'x'", "'it''s'", "''", "'a b'"], "float": ["1.5", "0.0"]}
# defaults of columns of the *initial* table only (expressions: reflected without / with their parentheses)
TABLE_DEFAULTS = {"int": ["(1 + 1)", "((2))"], "date": ["CURRENT_TIMESTAMP"]}


def family(ty):
    if ty in INTS or ty == "BOOLEAN":
        return "int"
    if ty in STRS:
        return "str"
    if ty in ("FLOAT", "NUMERIC(10, 2)"):
        return "float"
    if ty == "BLOB":
        return "blob"
    return "date"


def gen_value(rng, ty, odd=0.04):
    f = family(ty)
    if rng.random() < odd:
        # SQLite is dynamically typed: any storage class may sit in any column
        return rng.choice([{"t": "abc"}, {"i": 5}, {"r": "2.5"}])
    if ty == "BOOLEAN":
        return {"i": rng.choice([0, 1])}
    if f == "int":
        return {"i": rng.choice([0, 1, 2, 3, -1, -7, 42, 1000, 2 ** 40, -(2 ** 33), rng.randint(-50, 50)])}
    if f == "str":
        return {"t": rng.choice(TEXTS)}
    if f == "float":
        return rng.choice([{"r": "0.0"}, {"r": "-1.5"}, {"r": "3.25"}, {"r": "10000000000.0"}, {"r": "0.1"}, {"i": 5},
                           {"r": "12.34"}, {"r": "3.7"}, {"r": "1e+19"}, {"r": "-2.5"}])
    if f == "blob":
        return {"b": rng.choice(["", "6162", "27", "c3a9", "00"])}
    if ty == "DATE":
        return {"t": rng.choice(["2020-01-02", "1999-12-31"])}
    return {"t": rng.choice(["2020-01-02 03:04:05.000000", "1999-12-31 23:59:59.999999"])}


def check_value_ok(pred, v):
    """mirror of the model's evalCheck (SQLite: NULL passes; text sorts after numbers)"""
    if v is None:
        return True
    op, k = pred["op"], pred["k"]
    if "i" in v:
        x = v["i"]
        return {">": x > k, ">=": x >= k, "<": x < k, "<=": x <= k, "=": x == k, "!=": x != k}[op]
    if "r" in v:
        x = float(v["r"])
        return {">": x > k, ">=": x >= k, "<": x < k, "<=": x <= k, "=": x == k, "!=": x != k}[op]
    return op in (">", ">=", "!=")


def gen_table(rng, big=False):
    name = rng.choice(["t", "t", "t", "acct", "order_items", "a_table_name_that_is_fairly_long_to_force_truncation_x"])
    ncols = rng.randint(2, 7 if big else 5)
    cols = []
    pk_style = rng.choice(["rowid", "rowid", "named", "composite", "none", "text"])
    names = ["id"] + COLPOOL[: ncols - 1]
    for i, n in enumerate(names):
        if i == 0:
            ty = "VARCHAR(20)" if pk_style == "text" else "INTEGER"
            cols.append({"name": n, "ty": ty, "nullable": pk_style == "none" and rng.random() < 0.5, "default": None})
        else:
            ty = rng.choice(TYPE_TOKENS if rng.random() < 0.6 else INTS + STRS)
            d = None
            if rng.random() < 0.25 and (family(ty) in DEFAULTS or family(ty) in TABLE_DEFAULTS) and ty != "BOOLEAN":
                d = rng.choice(DEFAULTS.get(family(ty), []) + TABLE_DEFAULTS.get(family(ty), []))
            cols.append({"name": n, "ty": ty, "nullable": rng.random() < 0.75, "default": d})
    for c in cols:
        c["aff"] = aff_of_token(c["ty"])
        c["dval"] = default_value(c["default"])
        c["pk"] = False
    pk = None
    if pk_style in ("rowid", "text"):
        pk = {"name": None, "cols": ["id"]}
    elif pk_style == "named":
        pk = {"name": "pk_" + name[:10], "cols": ["id"]}
    elif pk_style == "composite":
        pk = {"name": rng.choice([None, "pk_c"]), "cols": ["id", cols[1]["name"]]}
        cols[1]["nullable"] = False
    if pk:
        for c in cols:
            if c["name"] in pk["cols"]:
                c["pk"] = True
                c["nullable"] = False
    nonpk = [c for c in cols if not c["pk"]]
    intcols = [c["name"] for c in nonpk if c["ty"] in INTS]
    uniques, checks, fks, indexes = [], [], [], []
    for j in range(rng.choice([0, 0, 1, 1, 2])):
        if not nonpk:
            break
        k = rng.sample([c["name"] for c in nonpk], min(len(nonpk), rng.choice([1, 1, 2])))
        if any(set(u["cols"]) == set(k) for u in uniques):
            continue
        uniques.append({"name": None if rng.random() < 0.15 else "uq_%d" % j, "cols": k})
    for j in range(rng.choice([0, 0, 1, 1, 2])):
        if not intcols:
            break
        c = rng.choice(intcols)
        pred = {"col": c, "op": rng.choice([">", ">=", "<", "!="]), "k": rng.choice([0, -100, 5])}
        if pred["op"] == "<":
            pred["k"] = 2 ** 41
        checks.append({"name": None if rng.random() < 0.2 else "ck_%d" % j, "text": "%s %s %d" % (c, pred["op"], pred["k"]),
                       "mentions": [c], "pred": pred})
    for j in range(rng.choice([0, 0, 1, 1, 2])):
        if not intcols:
            break
        c = rng.choice(intcols)
        selfref = rng.random() < 0.4
        rt = name if selfref else "parent"
        if any(f["cols"] == [c] and f["rtable"] == rt for f in fks):
            continue
        # two foreign keys may point at different columns of the same referent table (_setup_referent appends the column)
        fks.append({"name": None if rng.random() < 0.3 else "fk_%d" % j, "cols": [c], "rtable": rt,
                    "rcols": ["code"] if (not selfref and rng.random() < 0.4) else ["id"]})
    for j in range(rng.choice([0, 1, 1, 2])):
        k = rng.sample([c["name"] for c in cols], min(len(cols), rng.choice([1, 1, 2])))
        ix = {"name": "ix_%s_%d" % (name[:6], j), "cols": k, "unique": rng.random() < 0.2}
        if intcols and rng.random() < 0.3:
            # partial index (plain or unique): CREATE INDEX ... WHERE <predicate over an integer column>
            wc = rng.choice(intcols)
            form = rng.choice(["> 0", "= 1", ">= -5", "IS NOT NULL"]) if not ix["unique"] else rng.choice(["> 0", "= 1", ">= -5"])
            ix["where"] = "%s %s" % (wc, form)
            ix["where_mentions"] = [wc]
            m = re.match(r"(>=|>|=) (-?\d+)$", form)
            ix["where_pred"] = {"col": wc, "op": m.group(1), "k": int(m.group(2))} if m else None
        indexes.append(ix)
    # columns declared with a schema type carrying a named CHECK: Boolean / Enum(create_constraint=True, name=...)
    stypes = {}
    if rng.random() < 0.35:
        for cname, kind, ty, text in (("flag", "bool", "BOOLEAN", "flag IN (0, 1)"), ("status", "enum", "VARCHAR(1)", "status IN ('a', 'b')")):
            if rng.random() < 0.6:
                cols.append({"name": cname, "ty": ty, "nullable": rng.random() < 0.7, "default": None, "aff": aff_of_token(ty),
                             "dval": None, "pk": False})
                cn = "ck_%s_%s" % (name[:8], cname)
                checks.append({"name": cn, "text": text, "mentions": [cname], "pred": None})
                stypes[cname] = {"kind": kind, "const": cn}
    # a generated column reading an integer column: g INTEGER GENERATED ALWAYS AS (<c> + 1) STORED | VIRTUAL
    if intcols and rng.random() < 0.2:
        src = rng.choice(intcols)
        cols.append({"name": "g", "ty": "INTEGER", "nullable": True, "default": None, "aff": aff_of_token("INTEGER"), "dval": None,
                     "pk": False, "computed": "%s + 1" % src, "persisted": rng.random() < 0.6, "computed_mentions": [src]})
    t = {"name": name, "cols": cols, "pk": pk, "uniques": uniques, "checks": checks, "fks": fks, "indexes": indexes,
         "rows": [], "stypes": stypes}
    t["rows"] = gen_rows(rng, t, rng.choice([0, 1, 2, 3, 4, 6] if not big else [0, 3, 8, 20]))
    return t


def gen_rows(rng, t, n):
    rows = []
    id_base = rng.choice([3, 7, 40, 1000])
    seen = {}
    ucols = [tuple(u["cols"]) for u in t["uniques"]] + [tuple(i["cols"]) for i in t["indexes"] if i["unique"]]
    if t["pk"]:
        ucols.append(tuple(t["pk"]["cols"]))
    idx = {c["name"]: i for i, c in enumerate(t["cols"])}
    for r in range(n * 4):
        if len(rows) >= n:
            break
        row = []
        for c in t["cols"]:
            in_check = any(c["name"] == k["pred"]["col"] for k in t["checks"] if k["pred"]) or \
                any(c["name"] in i.get("where_mentions", ()) for i in t["indexes"])
            in_u = any(c["name"] in u for u in ucols)
            if c.get("computed"):
                v = None        # not inserted: the database computes it
            elif c["name"] in t.get("stypes", {}):
                st = t["stypes"][c["name"]]
                v = None if (c["nullable"] and rng.random() < 0.25) else ({"i": rng.choice([0, 1])} if st["kind"] == "bool" else {"t": rng.choice(["a", "b"])})
            elif c["name"] == "id" and c["pk"]:
                # ids with gaps and a start other than 1 (never exactly 1..n: a renumbering by the database must be visible)
                v = {"i": id_base + 3 * len(rows) + (len(rows) % 2)} if c["ty"] == "INTEGER" else {"t": "k%d" % (len(rows) + 1)}
            elif c["nullable"] and rng.random() < 0.25:
                v = None
            else:
                v = gen_value(rng, c["ty"], odd=0.0 if (in_check or in_u or c["pk"]) else 0.04)
            row.append(v)
        ok = True
        for k in t["checks"]:
            if k["pred"] and not check_value_ok(k["pred"], row[idx[k["pred"]["col"]]]):
                ok = False
        for u in ucols:
            key = tuple(repr(row[idx[c]]) for c in u)
            if any(row[idx[c]] is None for c in u):
                continue
            if key in seen.setdefault(u, set()):
                ok = False
        if not ok:
            continue
        for u in ucols:
            if all(row[idx[c]] is not None for c in u):
                seen.setdefault(u, set()).add(tuple(repr(row[idx[c]]) for c in u))
        rows.append(row)
    return rows


def gen_ops(rng, t, n=None, wild=0.08):
    """mostly valid op sequences; `wild` = probability of an op naming something that does not exist"""
    cur = [c["name"] for c in t["cols"]]          # current names (after renames)
    key = {c["name"]: c["name"] for c in t["cols"]}  # current name -> batch key (original name)
    tys = {c["name"]: c["ty"] for c in t["cols"]}
    newc = list(NEWPOOL)
    consts = [(u["name"], "unique") for u in t["uniques"] if u["name"]] + \
             [(k["name"], "check") for k in t["checks"] if k["name"]] + \
             [(f["name"], "foreignkey") for f in t["fks"] if f["name"]]
    if t["pk"] and t["pk"]["name"]:
        consts.append((t["pk"]["name"], "primary"))
    idxs = [i["name"] for i in t["indexes"]]
    ops = []
    checked = {k["pred"]["col"] for k in t["checks"] if k["pred"]}   # current names of columns some CHECK mentions
    checked |= {c for i in t["indexes"] for c in i.get("where_mentions", ())}   # ... or a partial index predicate
    retyped = set()
    idx0 = {c["name"]: i for i, c in enumerate(t["cols"])}
    has_null = {c["name"]: any(r[idx0[c["name"]]] is None for r in t["rows"]) for c in t["cols"]}
    all_int = {c["name"]: all(r[idx0[c["name"]]] is None or "i" in r[idx0[c["name"]]] for r in t["rows"]) for c in t["cols"]}
    stypes = dict(t.get("stypes", {}))             # current name -> {"kind", "const"} (while the CHECK is still there)
    gens = {c["name"] for c in t["cols"] if c.get("computed")}     # generated columns (by batch key): kept out of keys/checks
    overwritten = set()                                             # original columns replaced by an add_column of the same name
    dropped_idx = []                                                # indexes dropped so far in this batch

    def plain(names):
        return [x for x in names if key.get(x, x) not in gens]
    n = n or rng.choice([1, 1, 2, 2, 3, 4])
    if stypes and rng.random() < 0.5:
        n = max(n, 2)
    kinds = ["add_column"] * 5 + ["drop_column"] * 3 + ["alter_column"] * 5 + ["add_unique", "add_check", "add_fk",
             "drop_constraint", "drop_constraint", "create_index", "create_index", "drop_index", "add_pk", "table_comment"]
    added = []
    for _ in range(n):
        k = rng.choice(kinds)
        if k == "add_column" and newc:
            nm = newc.pop(0)
            if rng.random() < 0.02 and len(t["cols"]) > 1:
                # the name of an existing column (C10-F2); not a schema-type / generated one (their CHECK / expression stays)
                cand = [c["name"] for c in t["cols"][1:] if c["name"] not in t.get("stypes", {}) and not c.get("computed")]
                if cand:
                    nm = rng.choice(cand)
                    overwritten.add(nm)
            ty = rng.choice(INTS + STRS + ["FLOAT", "BOOLEAN"])
            nullable = rng.random() < 0.8
            d = rng.choice(DEFAULTS[family(ty)]) if family(ty) in DEFAULTS and (rng.random() < (0.8 if not nullable else 0.2)) else None
            o = {"op": "add_column", "col": {"name": nm, "ty": ty, "aff": aff_of_token(ty), "nullable": nullable,
                                              "default": d, "dval": default_value(d), "pk": False}, "before": None, "after": None}
            r = rng.random()
            pool = [key[c] for c in cur if c in key] + added
            if r < 0.25 and pool:
                o["before"] = rng.choice(pool)
            elif r < 0.5 and pool:
                o["after"] = rng.choice(pool)
            elif r < 0.55 and len(pool) > 1:
                o["before"], o["after"] = rng.sample(pool, 2)
            if rng.random() < 0.06:
                # a named column-level ForeignKey on the new column
                o["fk"] = {"name": "fk_col%d" % len(ops), "rtable": "parent", "rcols": [rng.choice(["id", "code"])],
                           "unqualified": rng.random() < 0.2}
            if rng.random() < 0.03 and not o.get("fk"):
                o["col"]["unique"] = True      # Column(unique=True): the unnamed UniqueConstraint is rejected by add_constraint
            if rng.random() < 0.05 and not any(x["op"] == "add_column" and x["col"].get("index") for x in ops):
                # one per batch: `table.indexes` is a set, two CREATE INDEX on the temp table come in hash order
                o["col"]["index"] = True
            added.append(nm)
            if nm not in cur:
                cur.append(nm)
            key[nm] = nm
            tys[nm] = ty
            ops.append(o)
        elif k == "drop_column" and len(cur) > 1:
            c = rng.choice(cur[1:] if rng.random() < 0.9 else cur)
            # keep one original column: with none left SQLAlchemy cannot compile the INSERT..SELECT (KeyError inside the
            # try; not modelled)
            if c in key and key[c] in idx0 and sum(1 for x in cur if key.get(x) in idx0 and key.get(x) not in overwritten) <= 1:
                continue
            if rng.random() < wild:
                ops.append({"op": "drop_column", "name": "nope"})
                continue
            o = {"op": "drop_column", "name": key[c]}
            if c in stypes and rng.random() < 0.8:   # autogenerate passes existing_type= on drop_column as well
                o["existing_type_const"], o["existing_type_kind"] = stypes[c]["const"], stypes[c]["kind"]
                stypes.pop(c)
            ops.append(o)
            cur.remove(c)
        elif k == "alter_column" and cur:
            c = rng.choice(cur)
            sc = [x for x in cur if x in stypes]
            if sc and rng.random() < 0.6:
                c = rng.choice(sc)
            o = {"op": "alter_column", "name": key[c], "new_name": None, "type": None, "nullable": None, "default": None}
            what = rng.choice(["rename", "type", "nullable", "default", "rename+type", "type"])
            if c in stypes:
                # autogenerate-style call: existing_type= the schema type with its named CHECK; mostly attribute-only changes
                what = rng.choice(["nullable", "nullable", "default", "comment", "rename", "type", "rename+type"])
                if rng.random() < 0.85 or "type" in what:
                    o["existing_type_const"], o["existing_type_kind"] = stypes[c]["const"], stypes[c]["kind"]
                if what == "comment":
                    o["comment"] = "a comment"
            if key.get(c) in gens and what == "nullable":
                what = "comment"       # NOT NULL on a generated column depends on the (opaque) expression value: not generated
                o["comment"] = "generated"
            if "rename" in what:
                nn = c + "_r"
                others = [x for x in cur if x != c and key.get(x, x) not in t.get("stypes", {})]
                if rng.random() < 0.06 and others:
                    # collision with another column's name (not a schema-type column: its CHECK text would then apply to
                    # this column's values, which the model cannot evaluate)
                    nn = rng.choice(others)
                o["new_name"] = nn
            if "type" in what:
                # the model evaluates CHECKs on integers only: a column some CHECK mentions stays integer typed
                ty = rng.choice(INTS) if c in checked else rng.choice(TYPE_TOKENS + ["JSON"])
                o["type"] = {"ty": ty, "aff": aff_of_token(ty)}
                retyped.add(c)
            if rng.random() < 0.08:
                # autoincrement=True is only legal (SQLAlchemy CompileError otherwise) on a single INTEGER primary key column
                single_int_pk = bool(t["pk"]) and t["pk"]["cols"] == [key.get(c)] and tys.get(c) == "INTEGER" and c not in retyped
                o["autoincrement"] = single_int_pk and what not in ("type", "rename+type") and rng.random() < 0.5
            if not o.get("existing_type_const") and c not in stypes and rng.random() < 0.25:
                # autogenerate-style existing_* arguments of a plain column
                o["existing_type_plain"] = tys.get(c, "INTEGER")
                o["existing_nullable"] = rng.random() < 0.5
            if what == "nullable":
                o["nullable"] = rng.random() < 0.4
            if what == "default":
                f = family(tys.get(c, "INTEGER"))
                o["default"] = {"set": rng.choice(DEFAULTS.get(f, ["0"]) + [None])}
            ops.append(o)
            if c in stypes and o.get("existing_type_const") and (o["new_name"] or o["type"]):
                stypes.pop(c)      # the CHECK is gone from named_constraints now
            if o["new_name"] and o["new_name"] not in cur:
                if c in stypes:
                    stypes[o["new_name"]] = stypes.pop(c)
                if c in checked:
                    checked.add(o["new_name"])
                if c in retyped:
                    retyped.add(o["new_name"])
                cur[cur.index(c)] = o["new_name"]
                key[o["new_name"]] = key.pop(c)
                tys[o["new_name"]] = tys.pop(c, "INTEGER")
        elif k == "add_unique" and cur:
            pool_ = plain(cur)
            if not pool_:
                continue
            cs = rng.sample(pool_, min(len(pool_), rng.choice([1, 1, 2])))
            # by batch key (works) or, sometimes, by the current (possibly new) name
            by_new = rng.random() < 0.15
            ops.append({"op": "add_unique", "name": "uq_new%d" % len(ops), "cols": [c if by_new else key[c] for c in cs]})
            consts.append((ops[-1]["name"], "unique"))
        elif k == "add_check" and cur:
            ic = [c for c in plain(cur) if tys.get(c) in INTS and c not in retyped and all_int.get(key.get(c, c), True)]
            if not ic:
                continue
            c = rng.choice(ic)
            checked.add(c)
            pred = {"col": c, "op": rng.choice([">", ">=", "!=", "<"]), "k": rng.choice([-(2 ** 41), 0, 1, 3])}
            ops.append({"op": "add_check", "name": "ck_new%d" % len(ops), "text": "%s %s %d" % (c, pred["op"], pred["k"]),
                        "mentions": [c], "pred": pred})
            consts.append((ops[-1]["name"], "check"))
        elif k == "add_fk" and cur:
            c = rng.choice(cur)
            rt = rng.choice(["parent", t["name"]])
            ops.append({"op": "add_fk", "name": "fk_new%d" % len(ops), "cols": [key[c]], "rtable": rt,
                        "rcols": ["code"] if (rt == "parent" and rng.random() < 0.4) else ["id"],
                        # only meaningful with schema=: referent_schema omitted
                        "unqualified": rng.random() < 0.2})
            consts.append((ops[-1]["name"], "foreignkey"))
        elif k == "add_pk" and cur and rng.random() < 0.5:
            # a NULL in an INTEGER PRIMARY KEY column is replaced by a fresh rowid by SQLite itself: not generated
            # ... and a non-integer value in an INTEGER PRIMARY KEY (rowid alias) is a "datatype mismatch"
            pc = [c for c in plain(cur) if not has_null.get(key.get(c, c), True) and (tys.get(c) not in INTS or all_int.get(key.get(c, c), False))
                  and c not in retyped]
            if not pc:
                continue
            c = rng.choice(pc)
            ops.append({"op": "add_pk", "name": "pk_new", "cols": [key[c]]})
        elif k == "drop_constraint":
            if consts and rng.random() > wild:
                nm, ty = consts.pop(rng.randrange(len(consts)))
                ops.append({"op": "drop_constraint", "name": nm, "type": ty if rng.random() < 0.8 else None})
            elif rng.random() < 0.5:
                ops.append({"op": "drop_constraint", "name": "no_such", "type": rng.choice(["unique", "check", None])})
        elif k == "create_index" and cur:
            pool_ = plain(cur)
            if not pool_:
                continue
            cs = rng.sample(pool_, min(len(pool_), rng.choice([1, 1, 2])))
            by_new = rng.random() < 0.1
            nm = "ix_new%d" % len(ops) if rng.random() < 0.93 or not idxs else rng.choice(idxs)
            if dropped_idx and rng.random() < 0.5:
                nm = dropped_idx.pop()       # an index dropped earlier in this batch is re-created under the same name
            o = {"op": "create_index", "name": nm, "cols": [c if by_new else key[c] for c in cs], "unique": rng.random() < 0.25}
            ic = [c for c in plain(cur) if tys.get(c) in INTS and c not in retyped and all_int.get(key.get(c, c), True) and c in key and key[c] == c]
            if ic and rng.random() < 0.2:
                wc = rng.choice(ic)
                o["where"], o["where_mentions"], o["where_pred"] = "%s > 0" % wc, [wc], {"col": wc, "op": ">", "k": 0}
                checked.add(wc)
            ops.append(o)
        elif k == "table_comment" and rng.random() < 0.5:
            ops.append({"op": "table_comment", "text": rng.choice(["a comment", None])})
        elif k == "drop_index":
            if idxs and rng.random() > wild:
                ops.append({"op": "drop_index", "name": idxs.pop(rng.randrange(len(idxs)))})
                dropped_idx.append(ops[-1]["name"])
            elif rng.random() < 0.5:
                ops.append({"op": "drop_index", "name": "ix_nope"})
    return ops


PARENT_SQL = ["CREATE TABLE parent (id INTEGER NOT NULL PRIMARY KEY, code INTEGER UNIQUE)",
              "INSERT INTO parent VALUES (1, 10), (2, 20), (3, 30)"]


def gen_partial_reordering(rng, t, ops):
    """the `partial_reordering` argument: 1-2 tuples over original (and sometimes added / unknown) column names"""
    names = [c["name"] for c in t["cols"]] + [o["col"]["name"] for o in ops if o["op"] == "add_column"]
    out = []
    for _ in range(rng.choice([1, 1, 2])):
        k = min(len(names), rng.choice([2, 2, 3]))
        tup = rng.sample(names, k)
        if rng.random() < 0.1:
            tup[rng.randrange(len(tup))] = "nope"
        out.append(tup)
    return out


def numeric_retype_battery():
    """fixed table + retypes: numeric / text columns holding fractional, out-of-range and non-numeric values are changed to
    INTEGER / BIGINT / SMALLINT (and back to FLOAT / NUMERIC): the stored value must be SQLite's CAST, storage class included"""
    def col(n, ty, pk=False):
        return {"name": n, "ty": ty, "aff": aff_of_token(ty), "nullable": not pk, "default": None, "dval": None, "pk": pk}

    vals_f = [{"r": "3.7"}, {"r": "-2.5"}, {"r": "1e+19"}, {"r": "-1e+19"}, {"i": 5}, {"r": "0.0"}, None, {"r": "12.0"}]
    vals_s = [{"t": "abc"}, {"t": "12abc"}, {"t": "3.9"}, {"t": " 7 "}, {"t": "-0.5"}, {"t": "9223372036854775808"}, None, {"t": ""}]
    t = {"name": "t", "cols": [col("id", "INTEGER", True), col("f", "FLOAT"), col("n", "NUMERIC(10, 2)"), col("s", "VARCHAR(20)"), col("i", "INTEGER")],
         "pk": {"name": None, "cols": ["id"]}, "uniques": [], "checks": [], "fks": [], "indexes": [], "stypes": {},
         "rows": [[{"i": k + 1}, vals_f[k], vals_f[(k + 3) % 8], vals_s[k], {"i": [3, -7, 2 ** 40, 0, 1, 5, 6, 7][k]}] for k in range(8)]}

    def alter(c, ty):
        return {"op": "alter_column", "name": c, "new_name": None, "type": {"ty": ty, "aff": aff_of_token(ty)}, "nullable": None, "default": None}

    seqs = [[alter("f", "INTEGER"), alter("n", "BIGINT"), alter("s", "SMALLINT")],
            [alter("f", "SMALLINT"), alter("n", "INTEGER"), alter("s", "BIGINT")],
            [alter("i", "FLOAT"), alter("s", "NUMERIC(10, 2)"), alter("f", "NUMERIC(10, 2)")],
            [alter("f", "VARCHAR(20)"), alter("f", "INTEGER")],
            [alter("n", "INTEGER"), alter("n", "FLOAT")]]
    return t, seqs


def pk_drop_battery():
    """named PRIMARY KEY (single column / composite) dropped through the public API: `drop_constraint(name, type_='primary')`
    builds a column-less placeholder; afterwards the table must have no primary key"""
    def col(n, ty, pk=False):
        return {"name": n, "ty": ty, "aff": aff_of_token(ty), "nullable": not pk, "default": None, "dval": None, "pk": pk}

    out = []
    for cols in (["id"], ["id", "a"]):
        t = {"name": "t", "cols": [col("id", "INTEGER", True), col("a", "VARCHAR(20)", "a" in cols), col("b", "INTEGER")],
             "pk": {"name": "pk_x", "cols": cols}, "uniques": [], "checks": [], "fks": [], "indexes": [], "stypes": {},
             "rows": [[{"i": 1}, {"t": "x"}, {"i": 5}], [{"i": 2}, {"t": "y"}, None]]}
        for ty in ("primary", None):
            out.append((t, [{"op": "drop_constraint", "name": "pk_x", "type": ty}]))
        out.append((t, [{"op": "drop_constraint", "name": "pk_x", "type": "primary"},
                        {"op": "add_unique", "name": "uq_b", "cols": ["b"]}]))
    return out


def ordering_battery(t):
    """fixed add_column position sequences (every branch of _setup_dependencies_for_add_column)"""
    first, last = t["cols"][0]["name"], t["cols"][-1]["name"]

    def col(n):
        return {"name": n, "ty": "INTEGER", "aff": aff_of_token("INTEGER"), "nullable": True, "default": None, "dval": None, "pk": False}

    def add(n, before=None, after=None):
        return {"op": "add_column", "col": col(n), "before": before, "after": after}

    return [
        [add("n1"), add("n2", before="n1")],                    # before a column that is also new
        [add("n1"), add("n2", after="n1")],                     # after a column that is also new
        [add("n1", before=first), add("n2", after=last)],       # before the first / after the last existing column
        [add("n1", after=first), add("n2", before=last), add("n3", before="n2", after="n1")],
        [add("n1", before="nope")], [add("n1", after="nope")],   # unknown anchors: KeyError
    ]


def universe(t, ops):
    u = {c["name"] for c in t["cols"]}
    for o in ops:
        if o["op"] == "add_column":
            u.add(o["col"]["name"])
        if o["op"] == "alter_column" and o.get("new_name"):
            u.add(o["new_name"])
    return sorted(u)
