"""C17 adapters: run the real `command.revision` / `command.merge` /
`ScriptDirectory.generate_revision` / `RevisionMap.add_revision` and canonicalise what they do.

Everything on disk lives in a scratch directory from tempfile.mkdtemp (ini file included).
"""
from __future__ import annotations

import argparse
import contextlib
import datetime
import io
import os
import re
import shutil
import tempfile
import warnings
from contextlib import contextmanager

import alembic
from alembic import command, util
from alembic.config import Config
from alembic.script import ScriptDirectory
from alembic.script import base as script_base
from alembic.script.revision import RevisionMap

from . import rev_impl, revfake


# --------------------------------------------------------------------------------------
# views


def _tl(x):
    """None / str / tuple  ->  list (util.to_tuple)"""
    if x is None:
        return []
    if isinstance(x, str):
        return [x]
    return list(x)


def view(rm: RevisionMap):
    """the observable view of a revision map; sets as sorted lists"""
    m = rm._revision_map
    revs = [v for k, v in m.items() if v is not None and k == v.revision]
    return {
        "revs": sorted(
            (
                {
                    "id": r.revision,
                    "down": list(r._versioned_down_revisions),
                    "rdeps": list(r._resolved_dependencies),
                    "ndeps": sorted(r._normalized_resolved_dependencies),
                    "labels": sorted(r.branch_labels),
                    "nextrev": sorted(r.nextrev),
                    "allNextrev": sorted(r._all_nextrev),
                }
                for r in revs
            ),
            key=lambda d: d["id"],
        ),
        "labelKeys": sorted([k, v.revision] for k, v in m.items() if v is not None and k != v.revision),
        "heads": sorted(rm.heads),
        "realHeads": sorted(rm._real_heads),
        "bases": sorted(rm.bases),
        "realBases": sorted(rm._real_bases),
    }


def canon_view(v):
    """model view (lists in model order) -> same canonical form"""
    return {
        "revs": sorted(
            (
                {
                    "id": r["id"],
                    "down": list(r["down"]),
                    "rdeps": list(r["rdeps"]),
                    "ndeps": sorted(r["ndeps"]),
                    "labels": sorted(r["labels"]),
                    "nextrev": sorted(r["nextrev"]),
                    "allNextrev": sorted(r["allNextrev"]),
                }
                for r in v["revs"]
            ),
            key=lambda d: d["id"],
        ),
        "labelKeys": sorted([a, b] for a, b in v["labelKeys"]),
        "heads": sorted(v["heads"]),
        "realHeads": sorted(v["realHeads"]),
        "bases": sorted(v["bases"]),
        "realBases": sorted(v["realBases"]),
    }


def hist_of_map(rm: RevisionMap):
    """model history (load order = insertion order of the map) of a loaded map, as written in the files"""
    m = rm._revision_map
    out = []
    for k, r in m.items():
        if r is None or k != r.revision:
            continue
        out.append(
            {
                "id": r.revision,
                "down": _tl(r.down_revision),
                "deps": _tl(r.dependencies),
                "labels": list(r._orig_branch_labels),
            }
        )
    return out


def view_diff(a, b):
    out = []
    if [r["id"] for r in a["revs"]] != [r["id"] for r in b["revs"]]:
        out.append("ids")
    bb = {r["id"]: r for r in b["revs"]}
    for r in a["revs"]:
        o = bb.get(r["id"])
        if o:
            for k in ("down", "rdeps", "ndeps", "labels", "nextrev", "allNextrev"):
                if r[k] != o[k] and k not in out:
                    out.append(k)
    for k in ("labelKeys", "heads", "realHeads", "bases", "realBases"):
        if a[k] != b[k]:
            out.append(k)
    return out


# --------------------------------------------------------------------------------------
# fake revisions: add_revision without files (fast stream, exhaustive small scope)


def add_fake(hist, adds):
    """load `hist`, then add_revision for each of `adds`.  -> list of per-add results
    {'inc': view, 'fresh': view} | {'err': name} | {'inc': view, 'freshErr': name}; the
    sequence stops at the first error."""
    out = []
    with warnings.catch_warnings():
        warnings.simplefilter("ignore")
        sd, info = rev_impl.load(hist)
        if sd is None:
            return None, info
        rm = sd.revision_map
        cur = list(hist)
        for r in adds:
            try:
                s = revfake.FakeScript(r["id"], revfake.tup(r.get("down")), revfake.tup(r.get("deps")), revfake.tup(r.get("labels")))
                rm.add_revision(s)
            except Exception as e:  # noqa
                out.append({"err": rev_impl.err_name(e)})
                break
            cur = cur + [r]
            res = {"inc": view(rm)}
            sd2, info2 = rev_impl.load(cur)
            if sd2 is None:
                res["freshErr"] = info2["err"]
            else:
                res["fresh"] = view(sd2.revision_map)
            out.append(res)
    return out, None


# --------------------------------------------------------------------------------------
# scratch script directories

_TEMPLATE_DIR = None


def _quiet(cfg):
    cfg.cmd_opts = argparse.Namespace(quiet=True)
    return cfg


class Scratch:
    """an initialised alembic environment in a temp dir; options set in memory on the Config"""

    def __init__(self, file_template=None, trunc=None, two_locations=False, recursive=False, timezone=None,
                 sourceless=False, revision_environment=False, hooks=False, output_encoding=None, bytecode=False):
        self.dir = tempfile.mkdtemp(prefix="c17_")
        self.ini = os.path.join(self.dir, "alembic.ini")
        self.scripts = os.path.join(self.dir, "scripts")
        cfg0 = _quiet(Config(self.ini))
        cfg0.set_main_option("script_location", self.scripts)
        with contextlib.redirect_stdout(io.StringIO()):
            command.init(cfg0, self.scripts)
        self.cfg = _quiet(Config(self.ini))  # re-read: the ini written by init fixes version_path_separator
        self.cfg.set_main_option("script_location", self.scripts)
        self.locations = [os.path.join(self.scripts, "versions")]
        if two_locations:
            self.locations = [os.path.join(self.dir, "v1"), os.path.join(self.dir, "v2")]
            self.cfg.set_main_option("version_locations", os.pathsep.join(self.locations))
        self.recursive = bool(recursive)
        if recursive:
            self.cfg.set_main_option("recursive_version_locations", "true")
        self.timezone = timezone
        if timezone is not None:
            self.cfg.set_main_option("timezone", timezone)
        self.sourceless = bool(sourceless)
        if sourceless:
            self.cfg.set_main_option("sourceless", "true")
        self.revision_environment = bool(revision_environment)
        if revision_environment:
            # env.py of the generic template connects to the configured database: an in-memory SQLite
            self.cfg.set_main_option("revision_environment", "true")
            self.cfg.set_main_option("sqlalchemy.url", "sqlite://")
        # Python's default: importing a revision file leaves its byte code in __pycache__ (the check itself runs with
        # PYTHONDONTWRITEBYTECODE=1; switched back on only while alembic imports revision files of this scratch directory)
        self.bytecode = bool(bytecode)
        self.output_encoding = output_encoding
        if output_encoding is not None:
            self.cfg.set_main_option("output_encoding", output_encoding)
        self.hooks = bool(hooks)
        if hooks:
            # a post-write hook that leaves the file alone (what a hook does to the file is the user's program)
            self.cfg.set_section_option("post_write_hooks", "hooks", "noop")
            self.cfg.set_section_option("post_write_hooks", "noop.type", "exec")
            self.cfg.set_section_option("post_write_hooks", "noop.executable", "/bin/true")
            self.cfg.set_section_option("post_write_hooks", "noop.options", "REVISION_SCRIPT_FILENAME")
        if file_template is not None:
            self.cfg.set_main_option("file_template", file_template.replace("%", "%%"))
        if trunc is not None:
            self.cfg.set_main_option("truncate_slug_length", str(trunc))
        self.file_template = file_template if file_template is not None else script_base._default_file_template
        self.trunc = trunc if trunc is not None else 40

    def fresh(self):
        with self.writing_bytecode():
            return ScriptDirectory.from_config(self.cfg)

    @contextmanager
    def writing_bytecode(self):
        import sys
        old = sys.dont_write_bytecode
        if self.bytecode:
            sys.dont_write_bytecode = False
        try:
            yield
        finally:
            sys.dont_write_bytecode = old

    def unlink(self, f):
        """remove a file the harness wants gone, together with the byte code Python cached for it"""
        import glob
        os.unlink(f)
        base = os.path.basename(f)
        if base.endswith(".py"):
            for pyc in glob.glob(os.path.join(glob.escape(os.path.dirname(f)), "__pycache__", glob.escape(base[:-3]) + ".*.pyc")):
                os.unlink(pyc)

    def version_path(self, spec):
        """spec: None | location index | {kind: location|subdir|sibling|sibling2|unrelated, idx, relative}"""
        if spec is None:
            return None
        if isinstance(spec, int):
            return self.locations[spec]
        loc = self.locations[spec.get("idx", 0)]
        p = {
            "location": loc,
            "subdir": os.path.join(loc, "sub"),
            "sibling": loc + "_archive",      # <root>/versions_archive next to <root>/versions
            "sibling2": loc + "2",
            "unrelated": os.path.join(self.dir, "elsewhere"),
        }[spec["kind"]]
        if spec.get("relative"):
            p = os.path.relpath(p, os.getcwd())
        return p

    def candidate_dirs(self):
        out = list(self.locations)
        for loc in self.locations:
            out += [loc + "_archive", loc + "2"]
        out.append(os.path.join(self.dir, "elsewhere"))
        return out

    def files(self):
        """every file under the version locations and under the directories a generated
        version_path may point to (so that a file written to the wrong place is seen and removed)"""
        out = set()
        for top in self.candidate_dirs():
            if os.path.isdir(top):
                for root, dirs, files in os.walk(top):
                    if root.endswith("__pycache__"):
                        continue
                    for f in files:
                        out.add(os.path.join(root, f))
        return out

    def model_paths(self, spec):
        """(normalised version_path or None, normalised locations) as generate_revision compares them"""
        vp = self.version_path(spec)
        return (None if vp is None else os.path.normpath(os.path.abspath(vp))), [os.path.normpath(l) for l in self.locations]

    def tz_ok(self):
        """does zoneinfo know the configured timezone (as written or upper-cased)?"""
        if self.timezone is None:
            return True
        from zoneinfo import ZoneInfo, ZoneInfoNotFoundError
        for name in (self.timezone, self.timezone.upper()):
            try:
                ZoneInfo(name)
                return True
            except (ZoneInfoNotFoundError, ValueError):
                pass
        return False

    def options(self):
        return {"timezone": self.timezone, "sourceless": self.sourceless, "revision_environment": self.revision_environment,
                "hooks": self.hooks, "output_encoding": self.output_encoding, "bytecode": self.bytecode}

    def encodable(self, texts):
        """can every text be written in the configured output_encoding (Python's own str.encode; default utf-8)?"""
        enc = self.output_encoding or "utf-8"
        try:
            for t in texts:
                t.encode(enc)
            return True
        except UnicodeError:
            return False

    def close(self):
        shutil.rmtree(self.dir, ignore_errors=True)


@contextmanager
def capture_add_revision():
    """records the RevisionMap that command.revision/merge updates (they build their own ScriptDirectory)"""
    seen = []
    orig = RevisionMap.add_revision

    def wrapped(self, revision, _replace=False):
        seen.append(self)
        return orig(self, revision, _replace=_replace)

    RevisionMap.add_revision = wrapped
    try:
        yield seen
    finally:
        RevisionMap.add_revision = orig


@contextmanager
def fixed_rev_ids(ids):
    """util.rev_id() is uuid4 based: feed it from the seeded generator instead (determinism only)"""
    it = iter(ids)
    orig = util.rev_id
    util.rev_id = lambda: next(it)
    try:
        yield
    finally:
        util.rev_id = orig


def load_error_name(e):
    # (an *encode* error comes from writing the file, not from loading it: an ordinary - unexpected - exception of the call)
    if isinstance(e, (SyntaxError, ValueError, UnicodeError)) and not isinstance(e, (util.CommandError, UnicodeEncodeError)):
        return "fileDoesNotLoad:" + type(e).__name__
    return rev_impl.err_name(e)


ASSIGN_RE = {
    "revision": re.compile(r"^revision: str = (.*)$", re.M),
    "down_revision": re.compile(r"^down_revision: Union\[str, None\] = (.*)$", re.M),
    "branch_labels": re.compile(r"^branch_labels: Union\[str, Sequence\[str\], None\] = (.*)$", re.M),
    "depends_on": re.compile(r"^depends_on: Union\[str, Sequence\[str\], None\] = (.*)$", re.M),
}


def assignment_texts(src):
    """the right-hand sides of the four identifier assignments as written in the file
    (the LAST match: a message that closes the docstring early could contain look-alikes)"""
    out = {}
    for k, rx in ASSIGN_RE.items():
        ms = rx.findall(src)
        out[k] = ms[-1] if ms else None
    return out


def run_call(env: Scratch, sd, call, next_id):
    """execute one call.  call = {kind: generate|revision|merge, rev_id, message, head, splice,
    branch_label, depends_on, version_path (index|None)}.
    -> dict(err=...) or dict(script=..., rm=incrementally updated map, new_files=[...])"""
    before = env.files()
    vp = env.version_path(call.get("version_path"))
    head = call.get("head")
    if isinstance(head, list):
        head = tuple(head)
    bl = call.get("branch_label")
    if isinstance(bl, list):
        bl = tuple(bl)
    dep = call.get("depends_on")
    res = {}
    import logging
    with warnings.catch_warnings(record=True) as wlist, contextlib.redirect_stdout(io.StringIO()), env.writing_bytecode():
        warnings.simplefilter("always")
        logging.disable(logging.CRITICAL)   # env.py (revision_environment) configures logging through fileConfig
        try:
          with rev_impl.alarm(1.5):          # a repeated revision id can tie the in-memory graph into a cycle
              if call["kind"] == "generate":
                  rid = call["rev_id"] if call.get("rev_id") is not None else next_id
                  script = sd.generate_revision(
                      rid, call.get("message"), head=head, splice=call.get("splice", False), branch_labels=bl,
                      version_path=vp, depends_on=dep,
                  )
                  rm = sd.revision_map
              elif call["kind"] == "revision":
                  with capture_add_revision() as seen, fixed_rev_ids([next_id]):
                      script = command.revision(
                          env.cfg, message=call.get("message"), head=head if head is not None else "head",
                          splice=call.get("splice", False), branch_label=bl, version_path=vp,
                          rev_id=call.get("rev_id"), depends_on=dep, sql=bool(call.get("sql")),
                      )
                  rm = seen[-1] if seen else None
              else:
                  with capture_add_revision() as seen, fixed_rev_ids([next_id]):
                      script = command.merge(
                          env.cfg, head, message=call.get("message"), branch_label=bl, rev_id=call.get("rev_id"),
                      )
                  rm = seen[-1] if seen else None
              res = {"script": script, "rm": rm}
        except BaseException as e:  # noqa  (SyntaxError etc. from loading the written file)
            if isinstance(e, (KeyboardInterrupt, SystemExit)):
                raise
            res = {"err": load_error_name(e), "exc": "%s: %s" % (type(e).__name__, str(e)[:200])}
        finally:
            logging.disable(logging.NOTSET)
    res["warnings"] = [str(w.message)[:120] for w in wlist]
    res["new_files"] = sorted(env.files() - before)
    return res


def file_attrs(script):
    m = script.module
    return {
        "id": m.revision,
        "down": _tl(m.down_revision),
        "deps": _tl(getattr(m, "depends_on", None)),
        "labels": _tl(getattr(m, "branch_labels", None)),
    }


def requested(fresh_sd, call, rid):
    """what the arguments ask for, resolved on a freshly loaded directory BEFORE the call
    (the implementation's own identifier resolution, property C16, is taken as given)"""
    rm = fresh_sd.revision_map
    head = call.get("head")
    if head is None:
        head = "head"
    if isinstance(head, list):
        head = tuple(head)
    heads = rm.get_revisions(head)
    down = [h.revision for h in heads if h is not None]
    deps = []
    for d in _tl(call.get("depends_on")):
        r = rm.get_revision(d)
        deps.append(d if d in r.branch_labels else r.revision)
    # the symbolic name `heads` asks for all heads, in no particular order
    unordered = any(str(x).split("@")[-1] == "heads" for x in _tl(head))
    return {"id": rid, "down": down, "deps": deps, "labels": _tl(call.get("branch_label")), "down_unordered": unordered}


def date_fields(script_path_or_none, src):
    m = re.search(r"^Create Date: (.*)$", src, re.M)
    return m.group(1) if m else ""
