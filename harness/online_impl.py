"""Adapter for C04: drives the real online migration machinery of alembic against a SQLite
*file* database, with a failure oracle, and observes the result through a fresh connection.

Two SQLite modes:
  "pysqlite": the sqlite3 module's default (legacy) transaction control, as SQLAlchemy 2.0 uses it
  "recipe"  : the documented SQLAlchemy recipe for real transactional DDL on SQLite
              (connect event: dbapi_connection.isolation_level = None; begin event: emit BEGIN)

Objects: even number 2*t = table t_<t>, odd number 2*d+1 = row d of table `data`.
"""
from __future__ import annotations

import os
import re
import shutil
import tempfile

import sqlalchemy as sa
from sqlalchemy import event, pool

from alembic.runtime.migration import MigrationContext

from . import revfake


class Boom(Exception):
    """the failure oracle's exception (kind "exception")"""


class BoomBase(BaseException):
    """a BaseException that is not an Exception (kind "baseException")"""


class BoomInterrupt(KeyboardInterrupt):
    """marked subclasses so that the harness recognises its own injected failure"""


class BoomExit(SystemExit):
    pass


KINDS = {"exception": Boom, "keyboardInterrupt": BoomInterrupt, "systemExit": BoomExit, "baseException": BoomBase}
INJECTED = (Boom, BoomBase, BoomInterrupt, BoomExit)


def pm_value(config):
    """the value passed as transaction_per_migration: the bool, or - config["pm_int"] - its int spelling 0 / 1
    (`int(os.environ[...])` in an env.py); alembic only promises to look at its truth value"""
    b = bool(config["perMig"])
    return int(b) if config.get("pm_int") else b


def exec_body_stmt(ctx, st, ids):
    """one body statement: SQL through ctx.execute, or - what == "read" - the migration reads the current heads mid-way
    (a guard in a data migration: op.get_context().get_current_heads()); the result is ignored"""
    if st[1] == "read":
        ctx.get_current_heads()
    else:
        ctx.execute(sql_of(st, ids))


def sql_of(stmt, ids=None):
    kind, what, e = stmt
    if what in ("vdel", "vins"):
        # a migration body that itself writes the version table (used to make alembic's own
        # rowcount check in HeadMaintainer raise inside the version update)
        assert kind == "dml"
        rid = ids[e]
        return ("DELETE FROM alembic_version WHERE version_num = '%s'" if what == "vdel"
                else "INSERT INTO alembic_version (version_num) VALUES ('%s')") % rid
    if kind == "ddl":
        assert e % 2 == 0
        return ("CREATE TABLE t_%d (x integer)" if what == "add" else "DROP TABLE t_%d") % (e // 2)
    assert e % 2 == 1
    return ("INSERT INTO data VALUES (%d)" if what == "add" else "DELETE FROM data WHERE x = %d") % (e // 2)


# batch_alter_table blocks (SQLite "move and copy").  Objects: column c_<j> = even number 2*(1000+j); the temporary
# table _alembic_tmp_t_<N> = 2*(5000+N).  A block is, for the model, just more statements in the same transaction:
#   recreate:   CREATE TABLE _alembic_tmp_t_N | INSERT INTO tmp SELECT (DML, no visible effect) | DROP TABLE t_N | ALTER .. RENAME
#   abstracted: ddl add TMP                   | dml no-op                                       | ddl del TMP    | ddl add/del COL
# (the last two real statements are only ever durable together: both follow the DML inside one transaction)
#   recreate="auto" + add_column: a single ALTER TABLE ADD COLUMN = ddl add COL
NOOP_OBJ = 2 * 9999 + 1


def col_obj(j):
    return 2 * (1000 + j)


def tmp_obj(n):
    return 2 * (5000 + n)


def batch_stmts(b):
    col = col_obj(b["col"])
    if b["op"] == "add" and b["recreate"] == "auto":
        return [["ddl", "add", col]]
    tmp = tmp_obj(b["table"])
    return [["ddl", "add", tmp], ["dml", "del", NOOP_OBJ], ["ddl", "del", tmp], ["ddl", "add" if b["op"] == "add" else "del", col]]


def batch_seg(table, col, op_, recreate):
    b = {"table": table, "col": col, "op": op_, "recreate": recreate}
    return {"auto": False, "batch": b, "stmts": batch_stmts(b)}


_BATCH_SQL = ("CREATE TABLE _ALEMBIC_TMP_", "INSERT INTO _ALEMBIC_TMP_", "DROP TABLE ", "ALTER TABLE ")


def n_body_atoms(segs):
    return sum(len(s["stmts"]) + (2 if s["auto"] else 0) for s in segs)


def install_recipe(target):
    """target: an Engine instance or the Engine class. returns a remover."""

    def do_connect(dbapi_connection, rec):
        dbapi_connection.isolation_level = None

    def do_begin(conn):
        conn.exec_driver_sql("BEGIN")

    event.listen(target, "connect", do_connect)
    event.listen(target, "begin", do_begin)

    def remove():
        event.remove(target, "connect", do_connect)
        event.remove(target, "begin", do_begin)

    return remove


def mk_engine(path, mode):
    eng = sa.create_engine("sqlite:///" + path, poolclass=pool.NullPool)
    if mode == "recipe":
        install_recipe(eng)
    return eng


def new_db(dirpath, name="db.sqlite"):
    path = os.path.join(dirpath, name)
    eng = sa.create_engine("sqlite:///" + path, poolclass=pool.NullPool)
    with eng.begin() as c:
        c.exec_driver_sql("CREATE TABLE data (x integer)")
    eng.dispose()
    return path


def observe(path, rev_index, vt_name="alembic_version"):
    """fresh connection: alembic_version rows, sqlite_master, data rows -> model Db"""
    eng = sa.create_engine("sqlite:///" + path, poolclass=pool.NullPool)
    try:
        with eng.connect() as c:
            tabs = [r[0] for r in c.exec_driver_sql("SELECT name FROM sqlite_master WHERE type='table'")]
            vt = vt_name in tabs
            rows = [r[0] for r in c.exec_driver_sql("SELECT version_num FROM %s" % vt_name)] if vt else []
            data = [r[0] for r in c.exec_driver_sql("SELECT x FROM data")]
            cols = []
            for t in tabs:
                if t.startswith("t_"):
                    for row in c.exec_driver_sql('PRAGMA table_info("%s")' % t):
                        if row[1].startswith("c_"):
                            cols.append(col_obj(int(row[1][2:])))
    finally:
        eng.dispose()
    objs = sorted([2 * int(t[2:]) for t in tabs if t.startswith("t_")] + [2 * d + 1 for d in data]
                  + [tmp_obj(int(t[len("_alembic_tmp_t_"):])) for t in tabs if t.startswith("_alembic_tmp_t_")] + cols)
    unknown = [t for t in tabs if not t.startswith("t_") and not t.startswith("_alembic_tmp_t_") and t != "data" and not t.startswith("alembic_version")]
    return {"objs": objs, "rows": sorted(rev_index[r] for r in rows), "vt": vt, "unknown": unknown,
            "dup_rows": len(rows) != len(set(rows)), "dup_data": len(data) != len(set(data))}


_V_INS = re.compile(r"INSERT INTO alembic_version\w* \(version_num\) VALUES \('([^']*)'\)")
_V_UPD = re.compile(r"UPDATE alembic_version\w* SET version_num='([^']*)' WHERE alembic_version\w*\.version_num = '([^']*)'")
_V_DEL = re.compile(r"DELETE FROM alembic_version\w* WHERE alembic_version\w*\.version_num = '([^']*)'")


def parse_version_stmt(statement, rev_index):
    s = " ".join(statement.split())
    m = _V_INS.match(s)
    if m:
        return ["vins", rev_index[m.group(1)]]
    m = _V_UPD.match(s)
    if m:
        return ["vupd", rev_index[m.group(2)], rev_index[m.group(1)]]
    m = _V_DEL.match(s)
    if m:
        return ["vdel", rev_index[m.group(1)]]
    return None


def is_version_dml(statement):
    s = statement.lstrip().upper()
    return "ALEMBIC_VERSION" in s and s.split(None, 1)[0] in ("INSERT", "UPDATE", "DELETE")


class Oracle:
    """Shared by the in-process and the command path: counts atoms of the current step,
    raises Boom at (k, pos); records what the steps did."""

    def __init__(self, bodies, rev_index, fail):
        self.bodies = bodies  # rid -> {"up": segs, "down": segs}
        self.rev_index = rev_index
        self.fail = fail  # (k, pos) or (k, pos, kind) or None; kind in KINDS, default "exception"
        self.step = -1  # index of the step whose body was entered last
        self.pos = 0  # atoms executed in the current step
        self.steps = []  # [{"rid","dir","vstmts":[...]}]
        self.create_vt = False
        self.unparsed = []
        self.ctx_getter = None
        self.in_body = False  # statements issued by the body itself are body atoms, not version statements
        self.fired = None  # where the injected failure was raised
        self.shift_for = {}  # engine_name -> object-number shift (several rounds on one database use disjoint objects)
        self.in_batch = False  # inside op.batch_alter_table(): its statements are counted in the cursor hook
        self.ids = [rid for rid, _ in sorted(rev_index.items(), key=lambda kv: kv[1])]
        self.tddl_seen = None

    def _tick(self):
        if self.fail is not None and self.fail[0] == self.step and self.fail[1] == self.pos:
            self.fired = [self.step, self.pos]
            raise KINDS[self.fail[2] if len(self.fail) > 2 else "exception"]()

    def body(self, rid, direction, engine_name=None):
        self.step += 1
        self.pos = 0
        self.steps.append({"rid": rid, "dir": direction, "vstmts": [], "engine": engine_name})
        ctx = self.ctx_getter()
        self.tddl_seen = bool(ctx.impl.transactional_ddl)
        self.steps[-1]["seen"] = [bool(ctx.impl.transactional_ddl), bool(ctx._transaction_per_migration),
                                  bool(ctx._in_external_transaction)]
        self.in_body = True
        shift = 2 * self.shift_for.get(engine_name, 0)
        try:
            for seg0 in self.bodies[rid][direction]:
                seg = seg0 if not shift else dict(seg0, stmts=[[k_, w_, e_ + shift] for k_, w_, e_ in seg0["stmts"]])
                if seg.get("batch"):
                    import sqlalchemy as _sa
                    from alembic.operations import Operations

                    b = seg["batch"]
                    self.in_batch = True
                    try:
                        with Operations(ctx).batch_alter_table("t_%d" % b["table"], recreate=b["recreate"]) as bop:
                            if b["op"] == "add":
                                bop.add_column(_sa.Column("c_%d" % b["col"], _sa.Integer))
                            else:
                                bop.drop_column("c_%d" % b["col"])
                    finally:
                        self.in_batch = False
                elif seg["auto"]:
                    self._tick()  # before entering the block
                    with ctx.autocommit_block():
                        self.pos += 1
                        for st in seg["stmts"]:
                            self._tick()
                            exec_body_stmt(ctx, st, self.ids)
                            self.pos += 1
                        self._tick()  # at the end of the block, still inside it
                    self.pos += 1
                else:
                    for st in seg["stmts"]:
                        self._tick()
                        exec_body_stmt(ctx, st, self.ids)
                        self.pos += 1
        finally:
            self.in_body = False

    # SQLAlchemy event: before_cursor_execute
    def before_cursor_execute(self, conn, cursor, statement, parameters, context, executemany):
        up = statement.lstrip().upper()
        if up.startswith("CREATE TABLE ALEMBIC_VERSION"):
            self.create_vt = True
            return
        if self.in_batch:
            if up.startswith(_BATCH_SQL):
                self._tick()  # failure positions before / between the statements of the batch block
                self.pos += 1
            return
        if not is_version_dml(statement) or self.step < 0 or self.in_body:
            return
        self._tick()
        v = parse_version_stmt(statement, self.rev_index)
        if v is None:
            self.unparsed.append(statement)
        else:
            self.steps[self.step]["vstmts"].append(v)
        self.pos += 1

    def on_version_apply(self, ctx, step, heads, run_args):
        self._tick()  # pos == number of atoms of the step: "after the version update"


def run_inprocess(path, hist, bodies, rev_index, cmd, target, config, fail):
    """env.py shape reproduced: connect, configure, with begin_transaction(): run_migrations().
    returns (result, oracle) with result in {"ok","boom","err:<class>"}"""
    orc = Oracle(bodies, rev_index, fail)
    fb = {}
    for r in hist:
        rid = r["id"]
        fb[rid] = ((lambda rid=rid, **kw: orc.body(rid, "up")), (lambda rid=rid, **kw: orc.body(rid, "down")))
    sd = revfake.make_sd(hist, fb)

    def fn(heads, ctx):
        if cmd == "upgrade":
            return sd._upgrade_revs(target, heads)
        return sd._downgrade_revs(target, heads)

    opts = {"fn": fn, "script": sd, "transaction_per_migration": pm_value(config),
            "on_version_apply": (orc.on_version_apply,)}
    if config.get("tddl") is not None:
        opts["transactional_ddl"] = config["tddl"]
    eng = mk_engine(path, config["engine"])
    event.listen(eng, "before_cursor_execute", orc.before_cursor_execute)
    holder = {}
    orc.ctx_getter = lambda: holder["ctx"]
    shape = config.get("shape", "stock")

    def shaped(conn):
        ctx = MigrationContext.configure(conn, opts=opts)
        holder["ctx"] = ctx
        if shape == "heads":
            ctx.get_current_heads()
        elif shape == "select":
            conn.exec_driver_sql("SELECT 1").fetchall()
        elif shape == "ctxexec":
            ctx.execute("SELECT 1")
        if shape == "no_outer":
            ctx.run_migrations()
        else:
            with ctx.begin_transaction():
                ctx.run_migrations()

    try:
        with eng.connect() as conn:
            if config.get("external"):
                with conn.begin():
                    shaped(conn)
            else:
                shaped(conn)
        res = "ok"
    except INJECTED:
        res = "boom"
    except BaseException as e:  # resolution errors, assertion of autocommit_block in an external transaction ...
        res = "err:" + revfake.exc_class(e)
    finally:
        eng.dispose()
    if "ctx" in holder:
        orc.tddl_seen = bool(holder["ctx"].impl.transactional_ddl)
    return res, orc


# ------------------------------------------------------------------------------------------
# the real alembic.command.upgrade / downgrade with a real script directory and the shipped
# templates/generic/env.py

REV_FILE = '''"""%(rid)s

Revision ID: %(rid)s
Revises: %(down)s
"""
revision = %(rid)r
down_revision = %(down_py)s
branch_labels = None
depends_on = %(deps_py)s


def upgrade(%(args)s):
    from alembic import context
    context.config.attributes["verif_oracle"].body(%(rid)r, "up"%(pass_args)s)


def downgrade(%(args)s):
    from alembic import context
    context.config.attributes["verif_oracle"].body(%(rid)r, "down"%(pass_args)s)
'''

ENV_NEEDLE2 = "\n        with context.begin_transaction():\n            context.run_migrations()\n"
ENV_PATCH2 = '''
        # env.py variants (harness): something executed on the migration connection between configure() and
        # begin_transaction(), or run_migrations() without the outer begin_transaction()
        _shape = config.attributes.get("verif_env_shape", "stock")
        if _shape == "heads":
            context.get_context().get_current_heads()
        elif _shape == "select":
            connection.exec_driver_sql("SELECT 1").fetchall()
        elif _shape == "ctxexec":
            context.execute("SELECT 1")
        if _shape == "no_outer":
            context.run_migrations()
        elif _shape == "two_calls":
            # several run_migrations() calls inside ONE begin_transaction() block (two-phase / per-tenant loop)
            with context.begin_transaction():
                context.run_migrations()
                context.run_migrations()
        else:
            with context.begin_transaction():
                context.run_migrations()
'''
ENV_NEEDLE = "connection=connection, target_metadata=target_metadata"
ENV_PATCH = "connection=connection, target_metadata=target_metadata, **config.attributes.get('verif_configure', {})"


def _py_tuple(xs):
    return "None" if not xs else (repr(xs[0]) if len(xs) == 1 else repr(tuple(xs)))


def make_script_dir(scratch, hist, path, template="generic", patch_env=False, name="scripts"):
    """command.init (shipped template) + one file per revision.  returns the Config.

    patch_env=False: the shipped env.py untouched.
    patch_env=True : the shipped generic env.py with ONE textual change: the online
      `context.configure(connection=connection, target_metadata=target_metadata)` additionally receives
      `**config.attributes["verif_configure"]`, the way a user passes transactional_ddl /
      transaction_per_migration / on_version_apply in his env.py (reaches EnvironmentContext.configure's
      option plumbing).  cfg.attributes["verif_env_patched"] says whether the needle was found.
    template="multidb": two databases engine1/engine2 (urls set by the caller)."""
    import contextlib
    import io

    from alembic import command
    from alembic.config import Config

    ini = os.path.join(scratch, "%s.ini" % name)
    sdir = os.path.join(scratch, name)
    cfg = Config(ini)
    cfg.set_main_option("script_location", sdir)
    cfg.stdout = io.StringIO()
    with contextlib.redirect_stdout(io.StringIO()):
        command.init(cfg, sdir, template=template)
    # command.init wrote the ini; re-read it and point it to our database
    cfg = Config(ini)
    cfg.stdout = io.StringIO()
    cfg.set_main_option("script_location", sdir)
    if path is not None:
        cfg.set_main_option("sqlalchemy.url", "sqlite:///" + path)
    patched = False
    if patch_env:
        envp = os.path.join(sdir, "env.py")
        src = open(envp).read()
        if src.count(ENV_NEEDLE) == 1 and src.count(ENV_NEEDLE2) == 1:
            with open(envp, "w") as f:
                f.write(src.replace(ENV_NEEDLE, ENV_PATCH).replace(ENV_NEEDLE2, ENV_PATCH2))
            patched = True
    cfg.attributes["verif_env_patched"] = patched
    multi = template == "multidb"
    for r in hist:
        down = r.get("down") or []
        with open(os.path.join(sdir, "versions", "%s_.py" % r["id"]), "w") as f:
            f.write(REV_FILE % {"rid": r["id"], "down": ", ".join(down) or "None", "down_py": _py_tuple(down),
                                "deps_py": _py_tuple(r.get("deps") or []),
                                "args": "engine_name" if multi else "", "pass_args": ", engine_name" if multi else ""})
    return cfg


def run_command(cfg, bodies, rev_index, cmd, target, engine_mode, fail, configure_kw=None, hook=False, shape="stock", sql=False,
                phases=None, shifts=None):
    """alembic.command.upgrade/downgrade through the shipped env.py (pysqlite default; with
    engine_mode == "recipe" the recipe is installed on the Engine class for the duration).
    configure_kw / hook: only with a patched env.py (see make_script_dir)."""
    import logging

    from alembic import command, op
    from sqlalchemy.engine import Engine

    orc = Oracle(bodies, rev_index, fail)
    orc.shift_for = dict(shifts or {})
    orc.ctx_getter = lambda: op.get_context()
    cfg.attributes["verif_oracle"] = orc
    kw = dict(configure_kw or {})
    if hook:
        kw["on_version_apply"] = orc.on_version_apply
    cfg.attributes["verif_configure"] = kw
    cfg.attributes["verif_env_shape"] = shape
    removers = []
    if engine_mode == "recipe":
        removers.append(install_recipe(Engine))
    event.listen(Engine, "before_cursor_execute", orc.before_cursor_execute)
    removers.append(lambda: event.remove(Engine, "before_cursor_execute", orc.before_cursor_execute))
    lvl = logging.root.manager.disable
    logging.disable(logging.CRITICAL)  # the shipped env.py calls fileConfig(); keep the run quiet
    cwd = os.getcwd()
    try:
        if phases:
            # what command.upgrade/downgrade do (real EnvironmentContext + ScriptDirectory.run_env()), with a work function
            # whose target depends on the call: the k-th run_migrations() call of env.py migrates to phases[k]
            from alembic.runtime.environment import EnvironmentContext
            from alembic.script import ScriptDirectory

            script_dir = ScriptDirectory.from_config(cfg)
            ncall = [0]

            def fn(heads, mc):
                tgt = phases[min(ncall[0], len(phases) - 1)]
                ncall[0] += 1
                return script_dir._upgrade_revs(tgt, heads) if cmd == "upgrade" else script_dir._downgrade_revs(tgt, heads)

            with EnvironmentContext(cfg, script_dir, fn=fn, as_sql=False, starting_rev=None, destination_rev=phases[-1], tag=None):
                script_dir.run_env()
        elif cmd == "upgrade":
            command.upgrade(cfg, target, sql=sql)
        else:
            command.downgrade(cfg, target, sql=sql)
        res = "ok"
    except INJECTED:
        res = "boom"
    except BaseException as e:
        res = "err:" + revfake.exc_class(e)
    finally:
        os.chdir(cwd)
        for r in removers:
            r()
        logging.disable(lvl)
        # the shipped env.py ran logging.config.fileConfig(): undo it
        for name in ("", "alembic", "sqlalchemy", "sqlalchemy.engine"):
            lg = logging.getLogger(name)
            lg.handlers[:] = []
            lg.setLevel(logging.WARNING)
    if orc.tddl_seen is None:
        orc.tddl_seen = bool((configure_kw or {}).get("transactional_ddl"))
    return res, orc


# ------------------------------------------------------------------------------------------
# offline (--sql) mode: the emitted script is the observable; it is judged by applying it, statement by
# statement, to a database in the start state

def run_offline(hist, bodies, rev_index, cmd, target, config, fail, start_rows):
    """env.py shape in as_sql mode on the sqlite dialect.  returns (result, oracle, emitted text)"""
    import io

    orc = Oracle(bodies, rev_index, fail)
    fb = {}
    for r in hist:
        rid = r["id"]
        fb[rid] = ((lambda rid=rid, **kw: orc.body(rid, "up")), (lambda rid=rid, **kw: orc.body(rid, "down")))
    sd = revfake.make_sd(hist, fb)

    def fn(heads, ctx):
        if cmd == "upgrade":
            return sd._upgrade_revs(target, heads)
        return sd._downgrade_revs(target, heads)

    buf = io.StringIO()
    opts = {"as_sql": True, "output_buffer": buf, "fn": fn, "script": sd, "transaction_per_migration": pm_value(config),
            "on_version_apply": (orc.on_version_apply,)}
    if config.get("tddl") is not None:
        opts["transactional_ddl"] = config["tddl"]
    if start_rows:
        opts["starting_rev"] = list(start_rows) if len(start_rows) > 1 else start_rows[0]
    holder = {}
    orc.ctx_getter = lambda: holder["ctx"]
    try:
        ctx = MigrationContext.configure(dialect_name="sqlite", opts=opts)
        holder["ctx"] = ctx
        with ctx.begin_transaction():
            ctx.run_migrations()
        res = "ok"
    except INJECTED:
        res = "boom"
    except BaseException as e:
        res = "err:" + revfake.exc_class(e)
    if "ctx" in holder:
        orc.tddl_seen = bool(holder["ctx"].impl.transactional_ddl)
    return res, orc, buf.getvalue()


def split_script(text):
    """statements of an emitted script (comment lines dropped), in order, with the index of the step (`-- Running`
    section) each belongs to (-1 = before the first step)"""
    out = []
    step = -1
    for chunk in text.split(";\n"):
        lines = []
        for ln in chunk.splitlines():
            if ln.strip().startswith("-- Running"):
                step += 1
            elif ln.strip() and not ln.strip().startswith("--"):
                lines.append(ln)
        st = "\n".join(lines).strip()
        if st:
            out.append((step, st))
    return out


def apply_script(path, text):
    """applies the script statement by statement, honouring its own BEGIN/COMMIT (sqlite3 in autocommit mode);
    a transaction the script leaves open is rolled back when the connection is closed.  returns the SQL errors."""
    import sqlite3

    errors = []
    con = sqlite3.connect(path, isolation_level=None)
    try:
        for _, st in split_script(text):
            try:
                con.execute(st)
            except sqlite3.Error as e:
                errors.append("%s: %s" % (st[:60], e))
    finally:
        con.close()
    return errors


TWODB_ENV = '''# hand-written env.py: several databases migrated from ONE env.py run, each with its own settings
from sqlalchemy import create_engine, pool

from alembic import context

config = context.config
orc = config.attributes["verif_oracle"]

for name, settings in config.attributes["verif_databases"]:
    engine = create_engine(config.get_main_option(name + ".url"), poolclass=pool.NullPool)
    with engine.connect() as connection:
        context.configure(connection=connection, on_version_apply=orc.on_version_apply, **settings)
        with context.begin_transaction():
            context.run_migrations(engine_name=name)
'''


ROUNDS_ENV = '''# hand-written env.py: several configure()/begin_transaction()/run_migrations() rounds on ONE connection
# (multi-tenant layout: one version table per tenant), no caller-owned transaction
from sqlalchemy import create_engine, pool

from alembic import context

config = context.config
orc = config.attributes["verif_oracle"]

engine = create_engine(config.get_main_option("db.url"), poolclass=pool.NullPool)
with engine.connect() as connection:
    for name, settings in config.attributes["verif_databases"]:
        context.configure(connection=connection, version_table="alembic_version_" + name,
                          on_version_apply=orc.on_version_apply, **settings)
        with context.begin_transaction():
            context.run_migrations(engine_name=name)
'''


def make_twodb_dir(scratch, hist, layout="twodb"):
    """generic script directory whose env.py is TWODB_ENV / ROUNDS_ENV; revision functions take engine_name"""
    cfg = make_script_dir(scratch, hist, None, template="multidb", name=layout)
    with open(os.path.join(scratch, layout, "env.py"), "w") as f:
        f.write(TWODB_ENV if layout == "twodb" else ROUNDS_ENV)
    return cfg


class Scratch:
    def __enter__(self):
        self.dir = tempfile.mkdtemp(prefix="verif_c04_")
        return self.dir

    def __exit__(self, *a):
        shutil.rmtree(self.dir, ignore_errors=True)
