"""Model side plumbing of the batch workstream: builds the driver ops for one executed case,
canonicalises both sides, compares.  Shared by harness/props/c10.py and c11.py."""
from __future__ import annotations

import json
import math
import sqlite3

from . import batch_gen as bg
from . import batch_impl as bi

RECREATE_TOKENS = ("createTmp", "insert", "dropOld", "renameTmp")


# ------------------------------------------------------------------------------- values for the driver

def jvalue(v):
    """harness value -> driver value (reals get floor/frac so that the model can compare them exactly)"""
    if v is None:
        return None
    if "r" in v:
        f = float(v["r"])
        if math.isfinite(f):
            fl = math.floor(f)
            return {"r": v["r"], "fl": int(fl), "fr": f != fl}
        return {"r": v["r"], "fl": 0, "fr": True}
    return v


def jtable(t, ix_order=None):
    if t is None:
        return None
    out = dict(t)
    out["cols"] = [dict(c, dval=jvalue(c.get("dval"))) for c in t["cols"]]
    out["rows"] = [[jvalue(v) for v in r] for r in t["rows"]]
    if ix_order is not None:
        pos = {n: i for i, n in enumerate(ix_order)}
        out["indexes"] = sorted(t["indexes"], key=lambda i: (pos.get(i["name"], len(pos)), i["name"]))
    return out


def jop(o, schema=None):
    o = dict(o)
    # under schema=, a foreign key added without referent_schema cannot be resolved (NoReferencedTableError)
    if o["op"] == "add_fk":
        o["unresolved"] = bool(schema and o.get("unqualified"))
    if o["op"] == "add_column" and o.get("fk"):
        o["fk"] = dict(o["fk"], cols=[o["col"]["name"]], unresolved=bool(schema and o["fk"].get("unqualified")))
    if o["op"] == "add_column":
        c = dict(o["col"])
        c["dval"] = jvalue(c.get("dval"))
        o["col"] = c
        o["clause"] = c["default"] is not None and not c["default"].startswith("'")
    if o["op"] == "alter_column" and o.get("default") is not None:
        d = dict(o["default"])
        d["dval"] = jvalue(bi.default_value(d["set"]))
        o["default"] = d
    return o


# ------------------------------------------------------------------------------- SQLite's conversions

class Conv:
    """CAST(v AS ty) and 'v stored into a column declared ty', evaluated by SQLite itself"""

    def __init__(self):
        self.c = sqlite3.connect(":memory:")
        self.n = 0

    def cast(self, ty, v):
        return bi.enc_value(self.c.execute("SELECT CAST(? AS %s)" % ty, (bi.dec_value(v),)).fetchone()[0])

    def store(self, ty, v):
        self.n += 1
        name = "x%d" % self.n
        self.c.execute("CREATE TABLE %s (c %s)" % (name, ty))
        self.c.execute("INSERT INTO %s VALUES (?)" % name, (bi.dec_value(v),))
        out = self.c.execute("SELECT c FROM %s" % name).fetchone()[0]
        self.c.execute("DROP TABLE %s" % name)
        return bi.enc_value(out)

    def close(self):
        self.c.close()


def conv_table(table, ops):
    """entries (ty, cast?, v, out) for every retyped column x every value that can reach it"""
    retypes = {}
    added = {}      # added column -> ([types it has / gets], [default values it has / gets])
    for o in ops:
        if o["op"] == "add_column":
            added[o["col"]["name"]] = ([o["col"]["ty"]], [o["col"].get("dval")])
        if o["op"] == "alter_column" and o.get("type"):
            retypes.setdefault(o["name"], []).append(o["type"]["ty"])
            if o["name"] in added:
                added[o["name"]][0].append(o["type"]["ty"])
        if o["op"] == "alter_column" and o.get("default") is not None and o["name"] in added:
            added[o["name"]][1].append(bi.default_value(o["default"]["set"]))
    if not retypes and not any(v is not None for _, dv in added.values() for v in dv):
        return []
    cv = Conv()
    out = []
    seen = set()

    def add(ty, cast, v, res):
        k = (ty, cast, json.dumps(v, sort_keys=True))
        if k not in seen:
            seen.add(k)
            out.append({"ty": ty, "cast": cast, "v": jvalue(v), "out": jvalue(res)})

    names = [c["name"] for c in table["cols"]]
    try:
        # the default of an added column is stored into the column's final declared type
        for col, (tys, dvs) in added.items():
            for ty in tys:
                for v in dvs:
                    if v is not None:
                        add(ty, False, v, cv.store(ty, v))
        for col, tys in retypes.items():
            if col not in names:
                continue
            i = names.index(col)
            vals = []
            for r in table["rows"]:
                if r[i] not in vals:
                    vals.append(r[i])
            for ty in tys:
                new = []
                for v in vals:
                    if v is None:
                        continue
                    res = cv.cast(ty, v)
                    add(ty, True, v, res)
                    if res not in vals and res not in new:
                        new.append(res)
                vals = vals + new
                for v in vals:
                    if v is not None:
                        add(ty, False, v, cv.store(ty, v))
    finally:
        cv.close()
    return out


# ------------------------------------------------------------------------------- canonical forms

def canon_table(t):
    if t is None:
        return None
    pk = t.get("pk")
    if pk and not pk["cols"]:
        pk = None
    return {
        "cols": [(c["name"], c["ty"], c["nullable"], c["default"], bool(c["pk"]), c.get("computed"), bool(c.get("persisted")))
                 for c in t["cols"]],
        "pk": (pk["name"], tuple(pk["cols"])) if pk else None,
        "uniques": sorted(((u["name"] or ""), tuple(u["cols"])) for u in t["uniques"]),
        "checks": sorted(((k["name"] or ""), k["text"]) for k in t["checks"]),
        "fks": sorted(((f["name"] or ""), tuple(f["cols"]), f["rtable"], tuple(f["rcols"])) for f in t["fks"]),
        "indexes": sorted((i["name"], tuple(i["cols"]), bool(i["unique"]), bi.norm_where(i.get("where"))) for i in t["indexes"]),
        # cells of generated columns are recomputed by the database: compared as a placeholder on both sides
        "rows": sorted(json.dumps([("<generated>" if (i < len(t["cols"]) and t["cols"][i].get("computed")) else
                                    None if v is None else {k: v[k] for k in v if k in "irtbcv" or k == "cast"})
                                   for i, v in enumerate(r)], sort_keys=True)
                       for r in t["rows"]),
    }


def canon_db(d):
    return {"orig": canon_table(d.get("orig")), "tmp": canon_table(d.get("tmp"))}


OUTCOME_MAP = {"DuplicateColumnError": "duplicateColumnPy", "ok": None}


def canon_outcome(o):
    if o in OUTCOME_MAP:
        return OUTCOME_MAP[o]
    if o.startswith("valueError"):
        return "valueError"
    if o.startswith("operational:no such index"):
        return "noSuchIndexDb"
    return o


def ix_order_of(stmts, table):
    seen = []
    for s in stmts:
        if s.startswith("createIndex:"):
            n = s.split(":")[1]
            if n not in seen:
                seen.append(n)
    return seen


# ------------------------------------------------------------------------------- one case

def new_case(table, ops, recreate="always", copy_from=False, fault=None, scope="none", iso="default", tddl=None,
             fkind="exception", pr=None, schema=None, main_twin=False, wfilter="ignore",
             identity=None):
    """schema: the table lives in an ATTACHed database of that name (batch_alter_table(..., schema=...)); main_twin: a different
    table of the same name exists in `main`"""
    if schema:
        table = dict(table, schema=schema)
    return {"table": table, "ops": ops, "recreate": recreate, "copy_from": copy_from, "fault": fault, "scope": scope,
            "iso": iso, "tddl": tddl, "fkind": fkind, "pr": pr, "schema": schema, "main_twin": bool(main_twin and schema),
            "wfilter": wfilter,
            # copy_from only: how the integer primary key is declared in the Table object: None / "always" (Identity(always=True)) /
            # "default" (Identity()) / "autoincrement"
            "identity": identity if copy_from else None}


def run_impl(case):
    db = bi.Db(case["table"], bg.PARENT_SQL, iso=case.get("iso", "default"), main_twin=case.get("main_twin", False))
    try:
        return bi.run_batch(db, case["ops"], recreate=case["recreate"], copy_from=case["copy_from"],
                            fault=case["fault"], scope=case["scope"], universe=bg.universe(case["table"], case["ops"]),
                            tddl=case.get("tddl"), fkind=case.get("fkind", "exception"), pr=case.get("pr"),
                            wfilter=case.get("wfilter", "ignore"), identity=case.get("identity"))
    finally:
        db.close()


def run_two_step(case, st):
    """Two batches on one database.  Step 1 = `case` (a fault at the RENAME under durable statements: the original is
    dropped, all rows live under the temporary name).  Step 2 = the migration is run again on that database: `st` =
    {recreate_empty: an empty table is first re-created under the original name, copy_from: step 2 is given the
    original Table (no reflection), fault, scope, tddl}.  Returns (r1, case2, r2); r2 is None when step 1 did not end
    in the wanted state."""
    db = bi.Db(case["table"], bg.PARENT_SQL, iso=case.get("iso", "default"), main_twin=case.get("main_twin", False))
    try:
        uni = bg.universe(case["table"], case["ops"])
        r1 = bi.run_batch(db, case["ops"], recreate=case["recreate"], copy_from=case["copy_from"], fault=case["fault"],
                          scope=case["scope"], universe=uni, tddl=case.get("tddl"), fkind=case.get("fkind", "exception"))
        orig0 = r1["before"]["orig"]
        if r1["outcome"] == "ok" or r1["fresh"]["orig"] is not None or r1["fresh"]["tmp"] is None:
            return r1, None, None
        if st.get("recreate_empty"):
            with db.engine.connect() as conn:
                conn.exec_driver_sql(bi.create_table_sql(dict(orig0, rows=[], schema=case.get("schema"))))
                conn.commit()
        case2 = new_case(case["table"], case["ops"], case["recreate"], dict(orig0, rows=[]) if st.get("copy_from") else False,
                         st.get("fault"), st.get("scope", "none"), case.get("iso", "default"), st.get("tddl"),
                         st.get("fkind", "exception"), schema=case.get("schema"), main_twin=case.get("main_twin", False))
        case2["orig0"] = orig0
        case2["two_step"] = {"step1": {k: case.get(k) for k in ("copy_from", "fault", "scope", "tddl", "fkind")}, "step2": dict(st)}
        r2 = bi.run_batch(db, case2["ops"], recreate=case2["recreate"], copy_from=case2["copy_from"], fault=case2["fault"],
                          scope=case2["scope"], universe=uni, tddl=case2.get("tddl"), fkind=case2.get("fkind", "exception"))
        return r1, case2, r2
    finally:
        db.close()


def model_op(case, r):
    before = r["before"]["orig"]
    cf = case["copy_from"] if isinstance(case["copy_from"], dict) else None
    src = before or cf or case.get("orig0")
    return {
        "op": "batch.run",
        "table": case["table"]["name"],
        "copy_from_schema": jtable(cf) if cf else None,
        "reflected": not case["copy_from"],
        "always": case["recreate"] == "always",
        "ops": [jop(o, case.get("schema")) for o in case["ops"]],
        "fault": case["fault"],
        # caller's SAVEPOINT: the SAVEPOINT statement itself opens SQLite's transaction (on every connection mode), so the whole batch
        # runs inside one transaction; RELEASE + COMMIT after the caught error keeps what was executed, ROLLBACK TO discards it
        "commitOnError": case["scope"] in ("swallow", "sp_release"),
        "mode": "begin" if str(case["scope"]).startswith("sp_") else case.get("iso", "default"),
        "tddl": bool(case.get("tddl")),
        "fault_kind": case.get("fkind", "exception"),
        "partial_reordering": case.get("pr") or [],
        "schema": case.get("schema"),
        "db": {"orig": jtable(before, ix_order_of(r["stmts"], before)) if before else None, "tmp": jtable(r["before"].get("tmp"))},
        "convs": conv_table(src, case["ops"]) if src else [],
    }


def spec10_op(case, r):
    return {"op": "batch.spec10", "table": case["table"]["name"], "ops": [jop(o, case.get("schema")) for o in case["ops"]],
            "before": jtable(r["before"]["orig"]), "after": jtable(r["fresh"]["orig"]),
            "tmp_like": r["fresh"]["tmp_like"], "convs": conv_table(r["before"]["orig"], case["ops"]),
            "partial_reordering": case.get("pr") or []}


def recreates(case):
    """does the batch take the move-and-copy path?  (recreate='always', or under 'auto' an operation other than create_index /
    drop_index / an add_column without a clause default or persisted Computed) - decided from the *input*, not from the statements
    the implementation happened to emit"""
    if case["recreate"] == "always":
        return True
    for o in case["ops"]:
        if o["op"] in ("create_index", "drop_index"):
            continue
        if o["op"] == "add_column":
            d = o["col"].get("default")
            if (d is not None and not d.startswith("'")) or o["col"].get("computed") or o.get("fk") or \
                    (o["col"].get("unique") and not o["col"].get("index")):      # unique+index makes a UNIQUE index, not a constraint
                return True
            continue
        return True
    return False


def failed_early(stmts):
    """the failure came at or before DROP of the original: no statement after `dropOld` was attempted,
    or `dropOld` itself was the failing one (then the clean-up `dropTmp` follows it)"""
    if "dropOld" not in stmts:
        return True
    i = stmts.index("dropOld")
    rest = stmts[i + 1:]
    return rest == ["dropTmp"] or rest == []


def spec11_op(case, r, view="fresh"):
    # second step of a two-step scenario: the rows to be retrievable are those of the very first table (`orig0`);
    # the early clauses (original untouched / temp table gone) speak about a single run and are not applied
    before = case.get("orig0") or r["before"]["orig"]
    return {"op": "batch.spec11", "ops": [jop(o, case.get("schema")) for o in case["ops"]], "before": jtable(before),
            "early": False if case.get("orig0") else failed_early(r["stmts"]),
            "after": {"orig": jtable(r[view]["orig"]), "tmp": jtable(r[view]["tmp"])},
            "convs": conv_table(before, case["ops"])}


def main_untouched(r):
    """with schema=: whatever `main` holds (a table of the same name, no temp tables) is exactly what it was"""
    why = []
    for view in ("same", "fresh"):
        if r["before"].get("main") != r[view].get("main") or r["before"].get("main_rows") != r[view].get("main_rows"):
            why.append("schema: the batch on %s.%s changed the main database: %s -> %s" % (
                "aux", "t", r["before"].get("main"), r[view].get("main")))
            break
    return why


def compare(case, r, m):
    """list of differences between the implementation run `r` and the model answer `m`"""
    diffs = []
    if "err" in m:
        return ["driver error: %s" % m["err"]]
    if r["stmts"] != m["stmts"]:
        diffs.append("stmts")
    if canon_outcome(r["outcome"]) != m["outcome"]:
        diffs.append("outcome")
    mf = canon_db(m["final"])
    if canon_db(r["fresh"]) != mf:
        a, b = canon_db(r["fresh"]), mf
        for side in ("orig", "tmp"):
            if a[side] != b[side]:
                if a[side] is None or b[side] is None:
                    diffs.append("final.%s.presence" % side)
                else:
                    diffs.extend("final.%s.%s" % (side, k) for k in a[side] if a[side][k] != b[side][k])
    if canon_db(r["same"]) != canon_db(r["fresh"]):
        diffs.append("same-vs-fresh connection")
    return diffs


def brief(r):
    return {"stmts": r["stmts"], "outcome": r["outcome"], "fresh": canon_db(r["fresh"])}
