"""Schema-pair generator, implementation adapter and canonicalisers for C20 (autogenerate filters).

The "database" side is created on an in-memory SQLite connection with MetaData.create_all and
then *described through SQLAlchemy's Inspector* (what the database says it contains); the model
side is a second MetaData built from the generated description.  Predicates are decision lists
(first matching rule wins) turned into real Python callables for include_object / include_name;
the same lists are interpreted by the Lean driver (Drv.Filter.evalObj / evalName).
"""
from __future__ import annotations

import warnings

import sqlalchemy as sa
from sqlalchemy import inspect as sa_inspect

from alembic.autogenerate import api as ag_api
from alembic.operations import ops as alembic_ops
from alembic.runtime.migration import MigrationContext

TYPES = {"INTEGER": lambda: sa.Integer(), "VARCHAR(10)": lambda: sa.String(10), "VARCHAR(20)": lambda: sa.String(20)}
TABLE_POOL = ["t_a", "t_b", "u_c", "u_d", "x_e"]
COL_POOL = ["a_1", "a_2", "b_1", "b_2", "c_x"]
OBJ_TYPES = ["table", "column", "index", "unique_constraint", "foreign_key_constraint"]
NAME_TYPES = ["schema"] + OBJ_TYPES
PREFIXES = ["t_", "u_", "x_", "a_", "b_", "c_", "ix_", "uq_", "fk_", "ix_t", "uq_u", "i"]


# ------------------------------------------------------------------ generation

def _gen_side_objects(rng, tname, cols, others, want):
    """indexes / uniques / fks over the given column names of one side"""
    noncols = [c for c in cols if c != "id"]
    idxs, uqs, fks = [], [], []
    return idxs, uqs, fks


def gen_pair(rng, big=False, with_schema=False, c06_class=False, doubled=False, table_opts=False, comments=False):
    """returns {"schemas": [...], "conn": [tbl...], "meta": [tbl...]} where a tbl is
    {schema,name,cols:[{name,ty,nullable}],idxs:[{name,unique,cols}],uqs:[{name,cols}],fks:[{name,col,ref,ondelete}]}"""
    ntab = rng.randint(1, 5 if big else 4)
    names = rng.sample(TABLE_POOL, ntab)
    schemas = [None]
    if with_schema:
        schemas.append("s2")
    conn, meta = [], []
    keys = []
    for n in names:
        s = rng.choice(schemas) if with_schema else None
        keys.append((s, n))
    presence = {}
    for k in keys:
        presence[k] = rng.choices(["both", "conn", "meta"], [6, 2, 2])[0]
    for (s, n) in keys:
        pres = presence[(s, n)]
        tag = n.replace("_", "")
        pool = rng.sample(COL_POOL, rng.randint(1, 4))
        ccols = [{"name": "id", "ty": "INTEGER", "nullable": False, "pk": True}]
        mcols = [{"name": "id", "ty": "INTEGER", "nullable": False, "pk": True}]
        for c in pool:
            where = rng.choices(["both", "conn", "meta"], [6, 2, 2])[0]
            ty = rng.choice(list(TYPES))
            nullable = rng.random() < 0.6
            col = {"name": c, "ty": ty, "nullable": nullable, "pk": False}
            if table_opts and rng.random() < 0.2:
                col["key"] = "k_" + c            # (C09) Column.key != Column.name, as in declarative models
            if table_opts:
                # (C09) server defaults and an explicit autoincrement flag, so that alter_column ops carry them
                if rng.random() < 0.35:
                    col["default"] = rng.choice(["0", "5"]) if ty == "INTEGER" else rng.choice(["'abc'", "'x y'"])
                if ty == "INTEGER" and rng.random() < 0.2:
                    col["autoinc"] = rng.random() < 0.5
            if where in ("both", "conn"):
                ccols.append(dict(col))
            if where in ("both", "meta"):
                m = dict(col)
                if table_opts and where == "both" and rng.random() < 0.3 and m["ty"] == ty:
                    m["default"] = rng.choice([None, "7" if ty == "INTEGER" else "'zz'"])
                if where == "both" and rng.random() < 0.35:
                    if rng.random() < 0.5:
                        m["nullable"] = not nullable
                    else:
                        m["ty"] = rng.choice([t for t in TYPES if t != ty])
                mcols.append(m)

        def pick_cols(cols, k=None):
            names_ = [c["name"] for c in cols]
            k = k or rng.choice([1, 1, 2])
            return rng.sample(names_, min(k, len(names_)))

        cidx, midx, cuq, muq, cfk, mfk = [], [], [], [], [], []
        # named indexes / unique constraints share a per-table name pool
        for i in range(rng.choice([0, 1, 2, 3])):
            kindc = rng.choice(["idx", "idx", "uq"])
            kindm = kindc if rng.random() < 0.92 else ("uq" if kindc == "idx" else "idx")
            nm = "%s_%s_%d" % ("ix" if kindc == "idx" else "uq", tag, i)
            where = rng.choices(["both", "conn", "meta"], [5, 3, 3])[0]
            unique = rng.random() < 0.3
            if where in ("both", "conn"):
                cc = pick_cols(ccols)
                (cidx if kindc == "idx" else cuq).append(
                    {"name": nm, "unique": unique, "cols": cc} if kindc == "idx" else {"name": nm, "cols": cc})
                if table_opts and kindc == "idx" and where == "conn" and rng.random() < 0.5:
                    # (C09) a partial index only the database has: the model drops it, the downgrade must bring the predicate back
                    cidx[-1]["where"] = "%s IS NOT NULL" % cc[0]
            if where in ("both", "meta"):
                if where == "both" and rng.random() < 0.6 and all(c in [x["name"] for x in mcols] for c in cc):
                    mc, mu = list(cc), unique
                else:
                    mc, mu = pick_cols(mcols), (unique if rng.random() < 0.7 else not unique)
                (midx if kindm == "idx" else muq).append(
                    {"name": nm, "unique": mu, "cols": mc} if kindm == "idx" else {"name": nm, "cols": mc})
        # a reflected unique constraint and a reflected index with the same name (`doubled_constraints`)
        if doubled and rng.random() < 0.3:
            nm = "dbl_%s" % tag
            uc, ic = pick_cols(ccols), pick_cols(ccols)
            cuq.append({"name": nm, "cols": uc})
            cidx.append({"name": nm, "unique": rng.random() < 0.3, "cols": ic})
            r = rng.random()
            okc = lambda cols: all(c in [x["name"] for x in mcols] for c in cols)
            if r < 0.3:
                midx.append({"name": nm, "unique": cidx[-1]["unique"], "cols": list(ic) if okc(ic) and rng.random() < 0.5 else pick_cols(mcols)})
            elif r < 0.6:
                muq.append({"name": nm, "cols": list(uc) if okc(uc) and rng.random() < 0.5 else pick_cols(mcols)})
            elif r < 0.8:
                # same signature under another (or no) name on the metadata side
                if rng.random() < 0.5 and okc(uc):
                    muq.append({"name": rng.choice([None, "uq_%s_d" % tag]), "cols": list(uc)})
                elif okc(ic):
                    midx.append({"name": "ix_%s_d" % tag, "unique": cidx[-1]["unique"], "cols": list(ic)})
        # unnamed unique constraints
        if rng.random() < 0.25:
            where = rng.choice(["both", "conn", "meta"])
            cc = pick_cols(ccols)
            if where in ("both", "conn"):
                cuq.append({"name": None if rng.random() < 0.6 else "uq_%s_n" % tag, "cols": cc})
            if where in ("both", "meta"):
                mc = list(cc) if all(c in [x["name"] for x in mcols] for c in cc) and rng.random() < 0.7 else pick_cols(mcols)
                muq.append({"name": None, "cols": mc})
        conn_t = {"schema": s, "name": n, "cols": ccols, "idxs": cidx, "uqs": cuq, "fks": cfk}
        meta_t = {"schema": s, "name": n, "cols": mcols, "idxs": midx, "uqs": muq, "fks": mfk}
        if comments:
            # only the model side can carry comments (SQLite stores none): a dialect "with comments" sees them as added
            if rng.random() < 0.5:
                meta_t["comment"] = "about %s" % n
            for c in mcols:
                if c["name"] != "id" and rng.random() < 0.25:
                    c["comment"] = "col %s" % c["name"]
        if table_opts and rng.random() < 0.4:
            # SQLite table option (same on both sides: autogenerate does not compare it)
            conn_t["without_rowid"] = meta_t["without_rowid"] = True
        if table_opts and pres != "both" and rng.random() < 0.35:
            # (C09) composite primary key written in another order than the columns are declared: PRIMARY KEY (x, id)
            side_t = conn_t if pres == "conn" else meta_t
            cand = [c for c in side_t["cols"] if c["name"] != "id"]
            if cand:
                extra = rng.sample(cand, min(len(cand), rng.choice([1, 1, 2])))
                for c in extra:
                    c["nullable"] = False
                    c.pop("autoinc", None)      # SQLite: no autoincrement inside a composite primary key
                side_t["pk_order"] = [c["name"] for c in reversed(extra)] + ["id"]
                side_t["pk_name"] = rng.choice([None, None, "pk_%s" % tag])
        if pres in ("both", "conn"):
            conn.append(conn_t)
        if pres in ("both", "meta"):
            meta.append(meta_t)
    # foreign keys: to the "id" of another table of the same side and schema
    for side in (conn, meta):
        for t in side:
            # only "earlier" tables (by name) are referenced: no FK cycles
            others = [o for o in side if o["name"] < t["name"] and o["schema"] == t["schema"]]
            if not others:
                continue
            for i in range(rng.choice([0, 0, 1, 2])):
                cands = [c["name"] for c in t["cols"] if c["name"] != "id" and c["ty"] == "INTEGER"]
                if not cands:
                    break
                t["fks"].append({
                    "name": None if rng.random() < 0.4 else "fk_%s_%d" % (t["name"].replace("_", ""), i),
                    "col": rng.choice(cands),
                    "ref": rng.choice(others)["name"],
                    "ondelete": "CASCADE" if rng.random() < 0.3 else None,
                })
                if table_opts and rng.random() < 0.4:
                    # (C09) options a re-created foreign key has to carry
                    t["fks"][-1]["deferrable"] = True
                    t["fks"][-1]["initially"] = rng.choice([None, "DEFERRED"])
                    t["fks"][-1]["onupdate"] = rng.choice([None, "CASCADE"])
    # make many FKs coincide between the sides: copy conn fks to meta where possible
    cm = {(t["schema"], t["name"]): t for t in meta}
    for t in conn:
        m = cm.get((t["schema"], t["name"]))
        if m is None:
            continue
        for fk in t["fks"]:
            if rng.random() < 0.6 and any(c["name"] == fk["col"] and c["ty"] == "INTEGER" for c in m["cols"]) \
                    and (t["schema"], fk["ref"]) in cm:
                f2 = dict(fk)
                if rng.random() < 0.25:
                    f2["ondelete"] = None if fk["ondelete"] else "CASCADE"
                if rng.random() < 0.2:
                    f2["name"] = None if fk["name"] else "fk_%s_m" % t["name"].replace("_", "")
                m["fks"].append(f2)
    # drop duplicate fk signatures / names inside one table
    for side in (conn, meta):
        for t in side:
            seen, out, seen_names = set(), [], set()
            for fk in t["fks"]:
                key = (fk["col"], fk["ref"])
                if key in seen or (fk["name"] and fk["name"] in seen_names):
                    continue
                seen.add(key)
                if fk["name"]:
                    seen_names.add(fk["name"])
                out.append(fk)
            t["fks"] = out
            # unique signatures for unique constraints, too (SQLite would merge them)
            seen, outu = set(), []
            for u in t["uqs"]:
                key = tuple(sorted(u["cols"]))
                if key in seen:
                    continue
                seen.add(key)
                outu.append(u)
            t["uqs"] = outu
    if c06_class:
        # the class of schema pairs of C06/C09: every constraint named, no dropped table still referenced
        mkeys = {(t["schema"], t["name"]) for t in meta}
        for side in (conn, meta):
            for t in side:
                tag = t["name"].replace("_", "")
                for i, u in enumerate(t["uqs"]):
                    if u["name"] is None:
                        u["name"] = "uq_%s_u%d" % (tag, i)
                for i, f in enumerate(t["fks"]):
                    if f["name"] is None:
                        f["name"] = "fk_%s_f%d" % (tag, i)
        for t in conn:
            t["fks"] = [f for f in t["fks"] if (t["schema"], f["ref"]) in mkeys]
        # _compare_foreign_keys matches by signature and ignores names, so an FK *rename* is invisible to it;
        # a pair in which the model renames an FK and gives its old name to a new FK is outside the class
        # (the upgrade would try to create a second constraint of that name): same signature => same name
        cmap = {(t["schema"], t["name"]): t for t in conn}
        for m in meta:
            c = cmap.get((m["schema"], m["name"]))
            if c:
                by_sig = {(f["col"], f["ref"], f["ondelete"]): f["name"] for f in c["fks"]}
                for f in m["fks"]:
                    f["name"] = by_sig.get((f["col"], f["ref"], f["ondelete"]), f["name"])
        for side in (conn, meta):
            for t in side:
                seen, out = set(), []
                for f in t["fks"]:
                    if f["name"] in seen:
                        continue
                    seen.add(f["name"])
                    out.append(f)
                t["fks"] = out
                seen, out = set(), []
                for u in t["uqs"]:
                    if u["name"] in seen or u["name"] in [i["name"] for i in t["idxs"]]:
                        continue
                    seen.add(u["name"])
                    out.append(u)
                t["uqs"] = out
    return {"schemas": schemas, "conn": conn, "meta": meta, "comments": bool(comments)}


# ------------------------------------------------------------------ building the two sides

def build_metadata(tables, split=False):
    """one MetaData, or (split) a list of two: tables that neither have nor receive a foreign key go to the second"""
    md = sa.MetaData()
    md2 = sa.MetaData()
    referenced = {(t["schema"], f["ref"]) for t in tables for f in t["fks"]}
    for t in tables:
        target = md2 if split and not t["fks"] and (t["schema"], t["name"]) not in referenced else md
        _build_table(target, t)
    return [md, md2] if split else md


def _build_table(md, t):
    if True:
        args = []
        key = {c["name"]: c.get("key") or c["name"] for c in t["cols"]}      # string references go by Column.key
        for c in t["cols"]:
            ckw = {}
            if c.get("default") is not None:
                ckw["server_default"] = sa.text(c["default"])
            if c.get("autoinc") is not None:
                ckw["autoincrement"] = c["autoinc"]
            if c.get("comment") is not None:
                ckw["comment"] = c["comment"]
            if c.get("key") is not None:
                ckw["key"] = c["key"]
            args.append(sa.Column(c["name"], TYPES[c["ty"]](), nullable=c["nullable"],
                                  primary_key=c.get("pk", False) and not t.get("pk_order"), **ckw))
        if t.get("pk_order"):
            args.append(sa.PrimaryKeyConstraint(*[key[c] for c in t["pk_order"]], name=t.get("pk_name")))
        for u in t["uqs"]:
            args.append(sa.UniqueConstraint(*[key[c] for c in u["cols"]], name=u["name"]))
        for f in t["fks"]:
            ref = "%s.%s.id" % (t["schema"], f["ref"]) if t["schema"] else "%s.id" % f["ref"]
            args.append(sa.ForeignKeyConstraint([key[f["col"]]], [ref], name=f["name"], ondelete=f["ondelete"], onupdate=f.get("onupdate"),
                                                deferrable=f.get("deferrable"), initially=f.get("initially")))
        tkw = {"sqlite_with_rowid": False} if t.get("without_rowid") else {}
        if t.get("comment") is not None:
            tkw["comment"] = t["comment"]
        tb = sa.Table(t["name"], md, *args, schema=t["schema"], **tkw)
        for i in t["idxs"]:
            ikw = {"sqlite_where": sa.text(i["where"])} if i.get("where") else {}
            sa.Index(i["name"], *[tb.c[key[c]] for c in i["cols"]], unique=i["unique"], **ikw)


def fk_sig(col, ref, ondelete):
    return "%s>%s.id%s" % (col, ref, "/" + ondelete if ondelete else "")


def describe_meta(tables):
    out = []
    for t in tables:
        out.append({
            "schema": t["schema"], "name": t["name"], "cols": [c["name"] for c in t["cols"]],
            "idxs": [{"name": i["name"], "unique": bool(i["unique"]), "sig": ",".join(i["cols"])} for i in t["idxs"]],
            "uqs": [{"name": u["name"], "sig": ",".join(sorted(u["cols"]))} for u in t["uqs"]],
            "fks": [{"name": f["name"], "sig": fk_sig(f["col"], f["ref"], f["ondelete"])} for f in t["fks"]],
        })
    return out


def describe_conn(conn, schemas):
    """what the database says it contains (SQLAlchemy Inspector, not alembic)"""
    insp = sa_inspect(conn)
    out = []
    for s in schemas:
        for tn in sorted(insp.get_table_names(schema=s)):
            fks = []
            for f in insp.get_foreign_keys(tn, schema=s):
                od = (f.get("options") or {}).get("ondelete")
                fks.append({"name": f["name"], "sig": fk_sig(f["constrained_columns"][0], f["referred_table"], od)})
            out.append({
                "schema": s, "name": tn,
                "cols": [c["name"] for c in insp.get_columns(tn, schema=s)],
                "idxs": [{"name": i["name"], "unique": bool(i["unique"]), "sig": ",".join(i["column_names"])}
                         for i in insp.get_indexes(tn, schema=s)],
                "uqs": [{"name": u["name"], "sig": ",".join(sorted(u["column_names"]))}
                        for u in insp.get_unique_constraints(tn, schema=s)],
                "fks": fks,
            })
    return out


def col_differ(pair):
    """matched columns whose (type, nullable) differ by construction"""
    cm = {(t["schema"], t["name"]): t for t in pair["conn"]}
    out = []
    for m in pair["meta"]:
        c = cm.get((m["schema"], m["name"]))
        if not c:
            continue
        cc = {x["name"]: x for x in c["cols"]}
        for x in m["cols"]:
            y = cc.get(x["name"])
            if y and ((y["ty"], y["nullable"]) != (x["ty"], x["nullable"]) or (pair.get("comments") and x.get("comment") is not None)):
                out.append({"schema": m["schema"], "table": m["name"], "col": x["name"]})
    return out


def table_options(conn, schemas):
    """reflected table options (SQLite: sqlite_with_rowid) of every table, by (schema, name)"""
    insp = sa_inspect(conn)
    out = {}
    for s in schemas:
        for tn in insp.get_table_names(schema=s):
            out["%s.%s" % (s or "", tn)] = {k: v for k, v in sorted(insp.get_table_options(tn, schema=s).items())}
            # ... and the primary key as the database reports it: column ORDER included
            out["%s.%s" % (s or "", tn)]["primary_key"] = list(insp.get_pk_constraint(tn, schema=s)["constrained_columns"])
            # ... and the predicate of every partial index (Inspector: dialect_options["sqlite_where"])
            part = {ix["name"]: " ".join(str(ix.get("dialect_options", {}).get("sqlite_where")).split())
                    for ix in insp.get_indexes(tn, schema=s) if ix.get("dialect_options", {}).get("sqlite_where") is not None}
            if part:
                out["%s.%s" % (s or "", tn)]["partial_indexes"] = part
    return out


def table_comment_differ(pair):
    """tables on both sides whose model carries a comment (the SQLite side never has one)"""
    if not pair.get("comments"):
        return []
    ck = {(t["schema"], t["name"]) for t in pair["conn"]}
    return [{"schema": m["schema"], "table": m["name"]} for m in pair["meta"]
            if m.get("comment") is not None and (m["schema"], m["name"]) in ck]


def make_db(pair):
    eng = sa.create_engine("sqlite://")
    conn = eng.connect()
    if "s2" in pair["schemas"]:
        conn.exec_driver_sql("ATTACH DATABASE ':memory:' AS s2")
    build_metadata(pair["conn"]).create_all(conn)
    return eng, conn


# ------------------------------------------------------------------ predicates

def _rule_matches(r, name, ty, schema, table, reflected=None, has_ct=None, is_obj=False, qualified=None):
    if r.get("ty") is not None and r["ty"] != ty:
        return False
    if r.get("name") is not None and name != r["name"]:
        return False
    if r.get("nameIsNone") and name is not None:
        return False
    if r.get("prefix") is not None and not (name is not None and name.startswith(r["prefix"])):
        return False
    if r.get("table") is not None and table != r["table"]:
        return False
    if r.get("tableIsNone") and table is not None:
        return False
    if r.get("schema") is not None and schema != r["schema"]:
        return False
    if r.get("schemaIsNone") and schema is not None:
        return False
    if r.get("qualified") is not None and qualified != r["qualified"]:
        return False
    if is_obj:
        if r.get("reflected") is not None and r["reflected"] != reflected:
            return False
        if r.get("hasCompareTo") is not None and r["hasCompareTo"] != has_ct:
            return False
    return True


def eval_rules(pred, name, ty, schema, table, reflected=None, has_ct=None, is_obj=False, qualified=None):
    for r in pred["rules"]:
        if _rule_matches(r, name, ty, schema, table, reflected, has_ct, is_obj, qualified):
            return bool(r["verdict"])
    return bool(pred["default"])


def _contents_match(r, cols, n_idx):
    """the part of a rule that looks INTO a table object: its columns / indexes"""
    if r.get("hasColumn") is not None and r["hasColumn"] not in cols:
        return False
    if r.get("lacksColumn") is not None and r["lacksColumn"] in cols:
        return False
    if r.get("minCols") is not None and len(cols) < r["minCols"]:
        return False
    if r.get("hasIndex") is not None and (n_idx > 0) != r["hasIndex"]:
        return False
    return True


CONTENT_KEYS = ("hasColumn", "lacksColumn", "minCols", "hasIndex")


def is_content_rule(r):
    return any(r.get(k) is not None for k in CONTENT_KEYS)


def expand_pred(pred, conn_desc, meta_desc):
    """content rules (verdict depends on what a `table` object holds) rewritten, for the model, into rules on
    (name, schema, reflected) computed from the REAL tables: the reflected table as the database describes it for
    reflected=True, the model's table for reflected=False - not from whatever object the hook was handed"""
    if not any(is_content_rule(r) for r in pred["rules"]):
        return pred
    rules = []
    for r in pred["rules"]:
        if not is_content_rule(r):
            rules.append(r)
            continue
        for flag, side in ((True, conn_desc), (False, meta_desc)):
            if r.get("reflected") is not None and r["reflected"] != flag:
                continue
            for t in side:
                if _contents_match(r, t["cols"], len(t["idxs"])):
                    e = {k: v for k, v in r.items() if k not in CONTENT_KEYS}
                    e.update({"ty": "table", "name": t["name"], "reflected": flag})
                    if t["schema"] is None:
                        e["schemaIsNone"] = True
                    else:
                        e["schema"] = t["schema"]
                    rules.append(e)
    return {"rules": rules, "default": pred["default"]}


def make_obj_callable(pred, calls):
    def content_ok(r, obj, type_):
        if not is_content_rule(r):
            return True
        if type_ != "table":
            return False
        return _contents_match(r, [c.name for c in obj.c], len(obj.indexes))

    def include_object(obj, name, type_, reflected, compare_to):
        if any(is_content_rule(r) for r in pred["rules"]):
            # the verdict looks at the object itself: first matching rule, content conditions evaluated on `obj`
            if type_ == "table":
                tname, schema = obj.name, obj.schema
            else:
                tb = getattr(obj, "table", None)
                if tb is None:
                    tb = getattr(obj, "parent", None)
                tname, schema = tb.name, tb.schema
            nm = None if name is None else str(name)
            v = bool(pred["default"])
            for r in pred["rules"]:
                if content_ok(r, obj, type_) and _rule_matches(
                        {k: x for k, x in r.items() if k not in CONTENT_KEYS}, nm, type_, schema, str(tname), bool(reflected),
                        compare_to is not None, True):
                    v = bool(r["verdict"])
                    break
            calls.append(("obj", nm, type_, bool(reflected), compare_to is not None, schema, str(tname), v))
            return v
        if type_ == "table":
            tname, schema = obj.name, obj.schema
        else:
            tb = getattr(obj, "table", None)
            if tb is None:
                tb = getattr(obj, "parent", None)
            tname, schema = tb.name, tb.schema
        nm = None if name is None else str(name)
        v = eval_rules(pred, nm, type_, schema, str(tname), bool(reflected), compare_to is not None, True)
        calls.append(("obj", nm, type_, bool(reflected), compare_to is not None, schema, str(tname), v))
        return v

    return include_object


def make_name_callable(pred, calls):
    def include_name(name, type_, parent_names):
        nm = None if name is None else str(name)
        schema = parent_names.get("schema_name")
        table = parent_names.get("table_name")
        # parent_names["schema_qualified_table_name"] is computed by run_name_filters for the hook
        v = eval_rules(pred, nm, type_, schema, table, qualified=parent_names.get("schema_qualified_table_name"))
        calls.append(("name", nm, type_, schema, table, v))
        return v

    return include_name


def universe(pair):
    """(type, name, table) triples occurring in the pair, for truth-table predicates"""
    out = set()
    for side in ("conn", "meta"):
        for t in pair[side]:
            out.add(("table", t["name"], t["name"]))
            for c in t["cols"]:
                out.add(("column", c["name"], t["name"]))
            for i in t["idxs"]:
                out.add(("index", i["name"], t["name"]))
            for u in t["uqs"]:
                out.add(("unique_constraint", u["name"], t["name"]))
            for f in t["fks"]:
                out.add(("foreign_key_constraint", f["name"], t["name"]))
    return sorted(out, key=lambda x: (x[0], x[1] or "", x[2]))


def gen_pred(rng, pair, is_obj):
    """one predicate of a named family; returns (family, {"rules": [...], "default": bool})"""
    types = OBJ_TYPES if is_obj else NAME_TYPES
    uni = universe(pair)
    tnames = sorted({t["name"] for s in ("conn", "meta") for t in pair[s]})
    fam = rng.choice(["all", "type", "prefix", "flag" if is_obj else "schema", "table" if is_obj else "qualified", "table", "truth",
                      "truth", "mixed", "mixed"] + (["oschema"] if is_obj and "s2" in pair["schemas"] else [])
                     + (["contents", "contents"] if is_obj else []))
    rules = []
    default = True
    if fam == "type":
        for ty in rng.sample(types, rng.randint(1, 2)):
            rules.append({"ty": ty, "verdict": False})
    elif fam == "prefix":
        for _ in range(rng.randint(1, 2)):
            r = {"prefix": rng.choice(PREFIXES), "verdict": False}
            if rng.random() < 0.4:
                r["ty"] = rng.choice(types)
            rules.append(r)
    elif fam == "flag":
        r = {"verdict": False}
        r[rng.choice(["reflected", "hasCompareTo"])] = rng.random() < 0.6
        if rng.random() < 0.6:
            r["ty"] = rng.choice(types)
        rules.append(r)
    elif fam == "schema":
        r = {"ty": "schema", "verdict": False}
        if rng.random() < 0.5:
            r["nameIsNone"] = True
        else:
            r["name"] = "s2"
        rules.append(r)
    elif fam == "contents":
        # "never touch tables that hold column X / have an index / have many columns": looks at the table object itself
        colnames = sorted({c["name"] for side in ("conn", "meta") for t in pair[side] for c in t["cols"] if c["name"] != "id"})
        for _ in range(rng.randint(1, 2)):
            r = {"ty": "table", "verdict": False}
            k = rng.choice(["hasColumn", "hasColumn", "lacksColumn", "minCols", "hasIndex"])
            if k in ("hasColumn", "lacksColumn"):
                r[k] = rng.choice(colnames) if colnames else "id"
            elif k == "minCols":
                r[k] = rng.choice([2, 3, 4])
            else:
                r[k] = rng.random() < 0.7
            if rng.random() < 0.4:
                r["reflected"] = rng.random() < 0.7
            rules.append(r)
    elif fam == "oschema":
        # objects of one schema (the default one or the attached one), optionally of one type
        r = {"verdict": False}
        if rng.random() < 0.5:
            r["schemaIsNone"] = True
        else:
            r["schema"] = "s2"
        if rng.random() < 0.5:
            r["ty"] = rng.choice(types)
        rules.append(r)
    elif fam == "qualified":
        tn = rng.choice(tnames)
        rules.append({"qualified": rng.choice([tn, "s2." + tn]), "verdict": False})
    elif fam == "table":
        r = {"table": rng.choice(tnames), "verdict": False}
        if rng.random() < 0.5:
            r["ty"] = rng.choice(types)
        rules.append(r)
    elif fam == "truth":
        p = rng.choice([0.2, 0.4, 0.6])
        for ty, nm, tb in uni:
            if rng.random() < p:
                r = {"ty": ty, "verdict": False}
                if nm is None:
                    r["nameIsNone"] = True
                else:
                    r["name"] = nm
                if rng.random() < 0.5:
                    r["table"] = tb
                rules.append(r)
    elif fam == "mixed":
        default = rng.random() < 0.8
        for _ in range(rng.randint(1, 4)):
            r = {"verdict": rng.random() < (0.3 if default else 0.7)}
            for fld in rng.sample(["ty", "prefix", "table", "reflected", "hasCompareTo", "name"], rng.randint(1, 2)):
                if fld == "ty":
                    r["ty"] = rng.choice(types)
                elif fld == "prefix":
                    r["prefix"] = rng.choice(PREFIXES)
                elif fld == "table":
                    r["table"] = rng.choice(tnames)
                elif fld == "name" and uni:
                    nm = rng.choice(uni)[1]
                    if nm is None:
                        r["nameIsNone"] = True
                    else:
                        r["name"] = nm
                elif is_obj and fld in ("reflected", "hasCompareTo"):
                    r[fld] = rng.random() < 0.5
            rules.append(r)
    return fam, {"rules": rules, "default": default}


ACCEPT_ALL = {"rules": [], "default": True}


# ------------------------------------------------------------------ running the implementation

def canon_ops(upgrade_ops):
    out = []

    def cols_of_index(ix):
        return ",".join(getattr(e, "name", str(e)) for e in ix.expressions)

    def leaf(op, schema=None, table=None):
        if isinstance(op, alembic_ops.CreateTableOp):
            out.append({"kind": "createTable", "schema": op.schema, "table": op.table_name, "name": op.table_name, "sig": ""})
        elif isinstance(op, alembic_ops.DropTableOp):
            out.append({"kind": "dropTable", "schema": op.schema, "table": op.table_name, "name": op.table_name, "sig": ""})
        elif isinstance(op, alembic_ops.AddColumnOp):
            out.append({"kind": "addColumn", "schema": op.schema, "table": op.table_name, "name": op.column.name, "sig": ""})
        elif isinstance(op, alembic_ops.DropColumnOp):
            out.append({"kind": "dropColumn", "schema": op.schema, "table": op.table_name, "name": op.column_name, "sig": ""})
        elif isinstance(op, alembic_ops.AlterColumnOp):
            out.append({"kind": "alterColumn", "schema": op.schema, "table": op.table_name, "name": op.column_name, "sig": ""})
        elif isinstance(op, alembic_ops.CreateIndexOp):
            out.append({"kind": "createIndex", "schema": op.schema, "table": op.table_name, "name": op.index_name,
                        "sig": cols_of_index(op.to_index())})
        elif isinstance(op, alembic_ops.DropIndexOp):
            out.append({"kind": "dropIndex", "schema": op.schema, "table": op.table_name, "name": op.index_name,
                        "sig": cols_of_index(op.to_index())})
        elif isinstance(op, alembic_ops.CreateUniqueConstraintOp):
            out.append({"kind": "addUq", "schema": op.schema, "table": op.table_name, "name": op.constraint_name,
                        "sig": ",".join(sorted(op.columns))})
        elif isinstance(op, alembic_ops.CreateForeignKeyOp):
            out.append({"kind": "addFk", "schema": op.kw.get("source_schema"), "table": op.source_table, "name": op.constraint_name,
                        "sig": fk_sig(op.local_cols[0], op.referent_table, op.kw.get("ondelete"))})
        elif isinstance(op, alembic_ops.DropConstraintOp):
            c = op.to_constraint()
            if op.constraint_type == "foreignkey":
                el = c.elements[0]
                out.append({"kind": "dropFk", "schema": op.schema, "table": op.table_name, "name": op.constraint_name,
                            "sig": fk_sig(c.column_keys[0], el.target_fullname.split(".")[-2], c.ondelete)})
            else:
                out.append({"kind": "dropUq", "schema": op.schema, "table": op.table_name, "name": op.constraint_name,
                            "sig": ",".join(sorted(col.name for col in c.columns))})
        elif isinstance(op, (alembic_ops.CreateTableCommentOp, alembic_ops.DropTableCommentOp)):
            out.append({"kind": "tableComment", "schema": op.schema, "table": op.table_name, "name": op.table_name, "sig": ""})
        else:
            out.append({"kind": "other:" + type(op).__name__, "schema": getattr(op, "schema", None),
                        "table": getattr(op, "table_name", ""), "name": None, "sig": ""})

    def walk(container):
        for op in container.ops:
            if isinstance(op, alembic_ops.ModifyTableOps):
                for o2 in op.ops:
                    n0 = len(out)
                    leaf(o2)
                    # the container names the table its ops act on (what batch_alter_table / rendering use)
                    # (the rendered migration runs them inside batch_alter_table(container.table_name, schema=container.schema)):
                    # an op is judged as an op on the container's table
                    for o in out[n0:]:
                        if (o["schema"], o["table"]) != (op.schema, op.table_name):
                            o["schema"], o["table"] = op.schema, op.table_name
            else:
                leaf(op)

    walk(upgrade_ops)
    for o in out:
        if o["name"] is not None:
            o["name"] = str(o["name"])
    return out


def op_sort_key(o):
    return (o["kind"], o["schema"] or "", o["table"], o["name"] or "", o["sig"])


def canon_diffs(diffs):
    """the same canonical targets from compare_metadata()'s diff tuples"""
    out = []

    def ixcols(ix):
        return ",".join(getattr(e, "name", str(e)) for e in ix.expressions)

    for d in diffs:
        if isinstance(d, list):
            if d:
                out.append({"kind": "alterColumn", "schema": d[0][1], "table": d[0][2], "name": d[0][3], "sig": ""})
            continue
        k = d[0]
        if k in ("add_table", "remove_table"):
            out.append({"kind": "createTable" if k == "add_table" else "dropTable", "schema": d[1].schema, "table": d[1].name,
                        "name": d[1].name, "sig": ""})
        elif k in ("add_column", "remove_column"):
            out.append({"kind": "addColumn" if k == "add_column" else "dropColumn", "schema": d[1], "table": d[2], "name": d[3].name, "sig": ""})
        elif k in ("add_index", "remove_index"):
            out.append({"kind": "createIndex" if k == "add_index" else "dropIndex", "schema": d[1].table.schema, "table": d[1].table.name,
                        "name": d[1].name, "sig": ixcols(d[1])})
        elif k in ("add_constraint", "remove_constraint"):
            out.append({"kind": "addUq" if k == "add_constraint" else "dropUq", "schema": d[1].table.schema, "table": d[1].table.name,
                        "name": None if d[1].name is None or type(d[1].name).__name__ == "_NoneName" else d[1].name,
                        "sig": ",".join(sorted(c.name for c in d[1].columns))})
        elif k in ("add_fk", "remove_fk"):
            c = d[1]
            out.append({"kind": "addFk" if k == "add_fk" else "dropFk", "schema": c.table.schema, "table": c.table.name,
                        "name": None if c.name is None or type(c.name).__name__ == "_NoneName" else c.name,
                        "sig": fk_sig(c.column_keys[0], c.elements[0].target_fullname.split(".")[-2], c.ondelete)})
        elif k in ("add_table_comment", "remove_table_comment"):
            out.append({"kind": "tableComment", "schema": d[1].schema, "table": d[1].name, "name": d[1].name, "sig": ""})
        else:
            out.append({"kind": "other:" + str(k), "schema": None, "table": "", "name": None, "sig": ""})
    for o in out:
        if o["name"] is not None:
            o["name"] = str(o["name"])
    return out


class ScriptEnv:
    """a scratch script directory whose env.py calls EnvironmentContext.configure(...) with what the harness puts into
    config.attributes: `alembic revision --autogenerate` end to end (RevisionContext, env.py, configure), nothing written"""

    ENV_PY = (
        "from alembic import context\n"
        "a = context.config.attributes\n"
        "kw = dict(connection=a['connection'], target_metadata=a['metadata'], include_schemas=a['include_schemas'],\n"
        "          process_revision_directives=a['prd'])\n"
        "if a.get('include_object') is not None:\n"
        "    kw['include_object'] = a['include_object']\n"
        "if a.get('include_name') is not None:\n"
        "    kw['include_name'] = a['include_name']\n"
        "context.configure(**kw)\n"
        "with context.begin_transaction():\n"
        "    context.run_migrations()\n"
    )

    # the multidb pattern: one env.py run, several configure() calls on the same EnvironmentContext, each with the hooks
    # it was given (and without a hook it was not given), each followed by its own run_migrations()
    ENV_PY_MULTI = (
        "from alembic import context\n"
        "a = context.config.attributes\n"
        "for i, r in enumerate(a['runs']):\n"
        "    kw = dict(connection=a['connection'], target_metadata=a['metadata'], include_schemas=a['include_schemas'],\n"
        "              process_revision_directives=a['prd'], upgrade_token='u%d' % i, downgrade_token='d%d' % i)\n"
        "    if r.get('include_object') is not None:\n"
        "        kw['include_object'] = r['include_object']\n"
        "    if r.get('include_name') is not None:\n"
        "        kw['include_name'] = r['include_name']\n"
        "    context.configure(**kw)\n"
        "    with context.begin_transaction():\n"
        "        context.run_migrations()\n"
    )

    def __init__(self):
        import io
        import os
        import tempfile
        from alembic import command
        from alembic.config import Config
        self.tmp = tempfile.mkdtemp(prefix="verif_c20_")
        self.cfg = Config(os.path.join(self.tmp, "alembic.ini"), stdout=io.StringIO())
        self.cfg.set_main_option("script_location", os.path.join(self.tmp, "scripts"))
        import contextlib
        with contextlib.redirect_stdout(io.StringIO()):
            command.init(self.cfg, os.path.join(self.tmp, "scripts"))
        with open(os.path.join(self.tmp, "scripts", "env.py"), "w") as f:
            f.write(self.ENV_PY)

    def autogenerate(self, conn, metadata, include_object, include_name, include_schemas):
        from alembic import command
        got = {}

        def prd(context, revision, directives):
            got["script"] = directives[0]
            directives[:] = []          # nothing is written

        self.cfg.attributes.update(connection=conn, metadata=metadata, include_object=include_object,
                                   include_name=include_name, include_schemas=include_schemas, prd=prd)
        command.revision(self.cfg, autogenerate=True)
        return got["script"]

    def autogenerate_multi(self, conn, metadata, runs, include_schemas):
        """runs: [{'include_object': callable|None, 'include_name': callable|None}]; one env.py run with one configure()
        per entry; returns the UpgradeOps of each"""
        import os
        from alembic import command
        got = {"n": 0}

        def prd(context, revision, directives):
            got["n"] += 1
            if got["n"] == len(runs):
                got["script"] = directives[0]
                directives[:] = []          # nothing is written

        env_py = os.path.join(self.tmp, "scripts", "env.py")
        self.cfg.attributes.update(connection=conn, metadata=metadata, runs=runs, include_schemas=include_schemas, prd=prd)
        try:
            with open(env_py, "w") as f:
                f.write(self.ENV_PY_MULTI)
            command.revision(self.cfg, autogenerate=True)
        finally:
            with open(env_py, "w") as f:
                f.write(self.ENV_PY)
        return list(got["script"].upgrade_ops_list)

    def close(self):
        import shutil
        shutil.rmtree(self.tmp, ignore_errors=True)


def run_autogen(conn, metadata, obj_pred=None, name_pred=None, include_schemas=False, calls=None, via="produce", env=None,
                no_uq_reflection=False):
    """via: 'produce' (produce_migrations), 'compare' (compare_metadata diff tuples), 'command' (alembic revision
    --autogenerate through env.py / EnvironmentContext.configure)"""
    opts = {"target_metadata": metadata, "include_schemas": include_schemas}
    calls = calls if calls is not None else []
    multi = via == "multi"
    io_ = make_obj_callable(obj_pred, calls) if obj_pred is not None and not multi else None
    in_ = make_name_callable(name_pred, calls) if name_pred is not None and not multi else None
    if io_ is not None:
        opts["include_object"] = io_
    if in_ is not None:
        opts["include_name"] = in_
    dialect = conn.dialect
    if no_uq_reflection:
        # a dialect that cannot reflect unique constraints (Inspector.get_unique_constraints -> NotImplementedError)
        def _no(*a, **k):
            raise NotImplementedError()
        dialect.get_unique_constraints = _no
    try:
        with warnings.catch_warnings():
            warnings.simplefilter("ignore")
            if via == "multi":
                # obj_pred / name_pred are lists here; a predicate that accepts everything is given as "no hook"
                runs = [{"include_object": make_obj_callable(o, []) if o not in (None, ACCEPT_ALL) else None,
                         "include_name": make_name_callable(n, []) if n not in (None, ACCEPT_ALL) else None}
                        for o, n in zip(obj_pred, name_pred)]
                return [sorted(canon_ops(u), key=op_sort_key) for u in env.autogenerate_multi(conn, metadata, runs, include_schemas)], 0
            if via == "command":
                script = env.autogenerate(conn, metadata, io_, in_, include_schemas)
                ops_ = canon_ops(script.upgrade_ops)
                n_diffs = len(script.upgrade_ops.as_diffs())
            elif via == "compare":
                mc = MigrationContext.configure(conn, opts=opts)
                diffs = ag_api.compare_metadata(mc, metadata)
                ops_ = canon_diffs(diffs)
                n_diffs = len(diffs)
            else:
                mc = MigrationContext.configure(conn, opts=opts)
                script = ag_api.produce_migrations(mc, metadata)
                ops_ = canon_ops(script.upgrade_ops)
                n_diffs = len(script.upgrade_ops.as_diffs())
    finally:
        if no_uq_reflection:
            del dialect.get_unique_constraints
    return sorted(ops_, key=op_sort_key), n_diffs


def inspected_schemas(conn, include_schemas):
    """the `schemas` set of _produce_net_changes before the name filter"""
    if not include_schemas:
        return [None]
    insp = sa_inspect(conn)
    s = set(insp.get_schema_names())
    s.discard("information_schema")
    s.discard(conn.dialect.default_schema_name)
    return [None] + sorted(s)
