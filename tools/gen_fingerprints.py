#!/usr/bin/env python3
"""tools/gen_fingerprints.py — record, per property, a fingerprint of the source files the
property is anchored in (properties.jsonl: anchors.files), as they are in /repo now.

The fingerprint is a hash of the file's AST without docstrings, comments, line numbers: a
reformatting does not change it, any change of code does.  `./check` compares the tree it runs
against with these fingerprints; when an anchored file differs, the model was written against
other code than the code being checked, and the run additionally executes the property's
deeper `search` exploration even if the ordinary pass found nothing (harness/runner.py).
A differing fingerprint is never by itself a violation.
"""
import ast, hashlib, json, os, sys

V = os.path.dirname(os.path.dirname(os.path.abspath(__file__)))
sys.path.insert(0, V)
from harness.core import source_fingerprint  # noqa

EXTRA = {  # files the anchored mechanisms call into
    "C01": ["alembic/script/base.py"], "C02": ["alembic/script/base.py"], "C03": ["alembic/script/revision.py"],
    "C05": ["alembic/script/revision.py", "alembic/runtime/migration.py", "alembic/command.py"],
    "C15": ["alembic/script/base.py"], "C16": ["alembic/script/base.py"],
    "C10": ["alembic/ddl/sqlite.py", "alembic/ddl/impl.py"], "C11": ["alembic/ddl/impl.py"],
    "C13": ["alembic/operations/toimpl.py", "alembic/ddl/base.py"], "C14": ["alembic/operations/toimpl.py"],
    "C09": ["alembic/operations/schemaobj.py"], "C08": ["alembic/operations/ops.py"],
    "C06": ["alembic/ddl/sqlite.py", "alembic/ddl/impl.py", "alembic/operations/batch.py"],
    "C07": ["alembic/ddl/sqlite.py", "alembic/ddl/impl.py"],
}


def main():
    repo = sys.argv[1] if len(sys.argv) > 1 else "/repo"
    out = {}
    for l in open(os.path.join(V, "properties.jsonl")):
        d = json.loads(l)
        files = list(d["anchors"]["files"]) + EXTRA.get(d["id"], [])
        fp = {}
        for f in dict.fromkeys(files):
            p = os.path.join(repo, f)
            if os.path.isfile(p):
                fp[f] = source_fingerprint(p)
        out[d["id"]] = fp
    # every module of the package: a harness crash on a tree whose code differs anywhere is a
    # broken correspondence, on the fingerprinted tree it is a bug of the machinery
    pkg = {}
    for dp, dn, fn in os.walk(os.path.join(repo, "alembic")):
        for f in fn:
            if f.endswith(".py"):
                rel = os.path.relpath(os.path.join(dp, f), repo)
                pkg[rel] = source_fingerprint(os.path.join(dp, f))
    out["_package"] = pkg
    json.dump(out, open(os.path.join(V, "fingerprints.json"), "w"), indent=1, sort_keys=True)
    print("fingerprints of", sum(len(v) for v in out.values()), "file entries written")


main()
