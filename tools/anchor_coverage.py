#!/venv/bin/python
"""tools/anchor_coverage.py Cxx [--tier quick|thorough]

Which lines and branches of the files a property is anchored in does the check's input
generator actually reach?  Runs the property's `run(ctx)` (the same exploration as
`./check Cxx`) under coverage.py restricted to the alembic package and prints, per anchored
file and function, the executable lines that were never executed and the branches never taken.
Uncovered code in an anchored mechanism is a generator gap: a change there cannot be seen by
the correspondence, whatever the theorems say.  Writes coverage/Cxx.json (summary).
Not part of the registered commands.
"""
import ast, importlib, json, os, sys

V = os.path.dirname(os.path.dirname(os.path.abspath(__file__)))
os.chdir(V)
sys.path.insert(0, V)
os.environ.setdefault("PYTHONHASHSEED", "0")
import coverage  # noqa

prop = sys.argv[1].upper()
tier = sys.argv[3] if len(sys.argv) > 3 and sys.argv[2] == "--tier" else "quick"
import alembic  # noqa

root = os.path.dirname(os.path.dirname(os.path.abspath(alembic.__file__)))
anch = None
for l in open(os.path.join(V, "properties.jsonl")):
    d = json.loads(l)
    if d["id"] == prop:
        anch = d["anchors"]
fp = json.load(open(os.path.join(V, "fingerprints.json"))).get(prop, {})
files = list(dict.fromkeys(list(anch["files"]) + list(fp)))
cov = coverage.Coverage(branch=True, include=[os.path.join(root, "alembic", "*")], data_file=None)
from harness.core import Ctx  # noqa

mod = importlib.import_module("harness.props.%s" % prop.lower())
ctx = Ctx(prop, tier, int(os.environ.get("VERIF_SEED", "0")), mod.DRIVER)
cov.start()
try:
    mod.run(ctx)
finally:
    cov.stop()


def funcs_of(path):
    tree = ast.parse(open(path).read())
    out = []

    def walk(node, prefix):
        for ch in ast.iter_child_nodes(node):
            if isinstance(ch, (ast.FunctionDef, ast.AsyncFunctionDef, ast.ClassDef)):
                name = prefix + ch.name
                if not isinstance(ch, ast.ClassDef):
                    out.append((ch.lineno, ch.end_lineno, name))
                walk(ch, name + ".")
            else:
                walk(ch, prefix)

    walk(tree, "")
    return out


summary = {}
for f in files:
    path = os.path.join(root, f)
    if not os.path.isfile(path) or not f.endswith(".py"):
        continue
    try:
        _, executable, _, missing, _ = cov.analysis2(path)
    except Exception as e:
        print("##", f, "not measured:", e)
        continue
    an = cov._analyze(path)
    arcs_missing = an.arcs_missing() if hasattr(an, "arcs_missing") else []
    fl = funcs_of(path)
    per = {}
    deflines = set()
    for a, b, n in fl:
        deflines.add(a)
    srcl = open(path).read().splitlines()
    for ln in missing:
        t = srcl[ln - 1].strip()
        if ln in deflines or t.startswith(("def ", "async def ", "class ", "@")) or (t.endswith(",") and ": " in t and "(" not in t):
            continue  # definition lines run at import time, before the measurement starts
        owner = [n for a, b, n in fl if a <= ln <= b]
        name = owner[-1] if owner else "<module>"
        per.setdefault(name, {"lines": [], "branches": []})["lines"].append(ln)
    for a, b in arcs_missing:
        if a in missing or a < 0 or b < 0:
            continue
        owner = [n for s, e, n in fl if s <= a <= e]
        name = owner[-1] if owner else "<module>"
        per.setdefault(name, {"lines": [], "branches": []})["branches"].append("%d->%d" % (a, b))
    pct = 100.0 * (len(executable) - len(missing)) / max(1, len(executable))
    print("## %s: %d/%d executable lines reached (%.0f%%)" % (f, len(executable) - len(missing), len(executable), pct))
    src = open(path).read().splitlines()
    for name, d in sorted(per.items(), key=lambda kv: kv[0]):
        if name == "<module>":
            continue
        # functions never entered at all are listed by name only
        fn = [x for x in fl if x[2] == name][0]
        body = [ln for ln in executable if fn[0] < ln <= fn[1]]
        if body and all(ln in missing for ln in body):
            print("   never entered: %s (lines %d-%d)" % (name, fn[0], fn[1]))
            continue
        if d["lines"]:
            print("   %s: lines not reached %s" % (name, d["lines"]))
            for ln in d["lines"][:6]:
                print("        %d: %s" % (ln, src[ln - 1].strip()[:110]))
        if d["branches"]:
            print("   %s: branches never taken %s" % (name, d["branches"][:12]))
    summary[f] = {"executable": len(executable), "missing": len(missing), "functions": {k: v for k, v in per.items()}}
os.makedirs(os.path.join(V, "coverage"), exist_ok=True)
json.dump(summary, open(os.path.join(V, "coverage", "%s.json" % prop), "w"), indent=1)
