#!/usr/bin/env python3
"""tools/mutants_report.py Cxx — compact list of the mutants that survived both the test suite and the check"""
import json, sys
p = sys.argv[1]
d = json.load(open('/verif/mutants/%s.json' % p))
print("=====", p, d['counts'])
for r in d['survivors']:
    print("%s  %s:%s  %s  [%s]" % (r['status'], r['file'], r['line'], r['function'], r['kind']))
    body = [l for l in r['diff'].splitlines() if l.startswith(('+', '-')) and not l.startswith(('+++', '---'))]
    for b in body[:6]:
        print("      " + b[:220])
