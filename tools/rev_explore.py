"""debug helper: compare the Rev model with the implementation on random cases"""
import json, sys, random, collections
sys.path.insert(0, '/verif')
from harness.core import Ctx
from harness import rev_corr, rev_impl, gen_graph

seed = int(sys.argv[1]) if len(sys.argv) > 1 else 0
ngraphs = int(sys.argv[2]) if len(sys.argv) > 2 else 200
ctx = Ctx("REV", "quick", seed, "drv_rev")
rng = ctx.rng("explore")
runner = rev_corr.RevRunner(ctx)
stats = collections.Counter()
bad = []
def on_result(c, impl, model):
    ci, cm = rev_corr.canon_cmd(impl), rev_corr.canon_cmd(model)
    stats[c["cmd"]] += 1
    if "err" in ci: stats["err:" + ci["err"]] += 1
    if ci != cm:
        stats["DISAGREE"] += 1
        bad.append((c, ci, cm))
# load comparison
loads = []
for hist in rev_corr.random_histories(ctx, rng, ngraphs, 1, 9):
    sd, info = rev_impl.load(hist)
    loads.append((hist, info))
    if sd is not None:
        rev_corr.drive_commands(ctx, runner, rng, hist, 12, [5, 3, 2], on_result)
    if len(runner.pending) > 2000:
        runner.flush(on_result)
runner.flush(on_result)
ans = ctx.drv.ask([{"op": "rev.load", "revs": h, "normOrder": i.get("normOrder", [])} for h, i in loads])
for (h, i), a in zip(loads, ans):
    ii = {k: v for k, v in i.items() if k != "normOrder"}
    if rev_impl.canon_model_load(a) != ii:
        stats["LOAD-DISAGREE"] += 1
        bad.append(({"load": h}, ii, rev_impl.canon_model_load(a)))
print(dict(stats))
for c, ci, cm in bad[:int(sys.argv[3]) if len(sys.argv) > 3 else 3]:
    print("CASE", json.dumps(c)); print(" IMPL ", json.dumps(ci)); print(" MODEL", json.dumps(cm))
