#!/bin/bash
# tools/eval_seed.sh <seeded-id> [tier] [check-id]
# Re-confirms a seeded regression kept under /verif/seeded/<id>/ (patch.diff, demo.py, meta.json) and runs
# our check against it, in a throw-away worktree of /repo (removed afterwards).
ID=$1; TIER=${2:-quick}; P=${3:-${ID%%-*}}
S=/verif/seeded/$ID
W=$(mktemp -d /tmp/seedwt.XXXXXX)
git -C /repo worktree add -q --detach $W/wt HEAD || exit 2
git -C $W/wt apply $S/patch.diff || { echo "patch does not apply"; git -C /repo worktree remove --force $W/wt; exit 2; }
echo "== $ID (property $P)"
PYTHONDONTWRITEBYTECODE=1 PYTHONPATH=/repo /venv/bin/python $S/demo.py >/dev/null 2>&1; echo "demo on /repo (expect 0): $?"
PYTHONPATH=$W/wt /venv/bin/python $S/demo.py >/dev/null 2>&1; echo "demo on patched (expect 1): $?"
if [ -z "$SKIP_TESTS" ]; then ( cd $W/wt && PYTHONPATH=$W/wt timeout 1200 /venv/bin/python -m pytest -q -p no:cacheprovider 2>&1 | tail -1 ); fi
cd /verif
VERIF_REPO=$W/wt timeout 3000 ./check $P --tier $TIER 2>&1 | grep -v "WARN\|UserWarn\|util.warn" | grep -E "VIOLATION|^\[C|infrastructure" | cut -c1-200
echo "check exit: ${PIPESTATUS[0]}"
git -C /repo worktree remove --force $W/wt; rm -rf $W
