#!/bin/bash
# tools/eval_seed.sh <seed-dir> <Cxx> [tier]  : confirm a seeded regression and run our check against it
# <seed-dir> contains wt/ (worktree with the patch applied) and out/{patch.diff,demo.py,meta.json}
D=$1; P=$2; TIER=${3:-quick}
echo "== $P ($D)"
PYTHONPATH=/repo /venv/bin/python $D/out/demo.py >/dev/null 2>&1; echo "demo on /repo (expect 0): $?"
PYTHONPATH=$D/wt /venv/bin/python $D/out/demo.py >/dev/null 2>&1; echo "demo on patched (expect 1): $?"
( cd $D/wt && PYTHONPATH=$D/wt timeout 1200 /venv/bin/python -m pytest -q -p no:cacheprovider 2>&1 | tail -1 )
cd /verif
VERIF_REPO=$D/wt timeout 3000 ./check $P --tier $TIER 2>&1 | grep -v "WARN\|UserWarn\|util.warn" | grep -E "VIOLATION|^\[C|infrastructure" | cut -c1-200
echo "check exit: ${PIPESTATUS[0]}"
