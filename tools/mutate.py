#!/venv/bin/python
"""tools/mutate.py Cxx [--n 60] [--workers 8] [--seed 0] [--only file.py:LINE:KIND[,...]]

Automatic mutation campaign for one property (not part of the registered commands).

1. runs the property's quick exploration under coverage.py and keeps, per anchored file, the lines
   that exploration executes;
2. generates small AST mutants *on executed lines inside functions* (negated conditions, swapped
   comparison / boolean operators, flipped boolean and 0/1 constants, dropped keyword arguments,
   deleted statements, `return None`);
3. stage A: the mutant must survive alembic's own test suite (as every seeded regression must);
4. stage B: `./check Cxx` runs against the mutant (VERIF_REPO=<scratch worktree>, plain quick tier).

A mutant that survives the suite, sits on a line our exploration executes, and is NOT reported by
the check is written to mutants/Cxx.json with its diff: it is either equivalent / irrelevant to the
property, or an oracle gap (the code ran, the change had an effect, nothing judged it).  Triage is
manual.  Killed mutants are counted only.
"""
import ast, copy, difflib, importlib, json, os, random, subprocess, sys, tempfile, shutil
from concurrent.futures import ThreadPoolExecutor

V = os.path.dirname(os.path.dirname(os.path.abspath(__file__)))
os.chdir(V)
sys.path.insert(0, V)
os.environ.setdefault("PYTHONHASHSEED", "0")


def arg(name, default):
    if name in sys.argv:
        return type(default)(sys.argv[sys.argv.index(name) + 1])
    return default


PROP = sys.argv[1].upper()
N = arg("--n", 60)
WORKERS = arg("--workers", 8)
SEED = arg("--seed", 0)
REPO = "/repo"

# ------------------------------------------------------------------ executed lines
import coverage  # noqa
import alembic  # noqa

root = os.path.dirname(os.path.dirname(os.path.abspath(alembic.__file__)))
anch = None
for l in open(os.path.join(V, "properties.jsonl")):
    d = json.loads(l)
    if d["id"] == PROP:
        anch = d["anchors"]
fp = json.load(open(os.path.join(V, "fingerprints.json"))).get(PROP, {})
files = [f for f in dict.fromkeys(list(anch["files"]) + list(fp)) if f.endswith(".py") and "templates" not in f]
cov = coverage.Coverage(branch=False, include=[os.path.join(root, "alembic", "*")], data_file=None)
from harness.core import Ctx  # noqa

mod = importlib.import_module("harness.props.%s" % PROP.lower())
ctx = Ctx(PROP, "quick", 0, mod.DRIVER)
cov.start()
try:
    mod.run(ctx)
finally:
    cov.stop()
executed = {}
for f in files:
    path = os.path.join(root, f)
    if not os.path.isfile(path):
        continue
    try:
        _, stmts, _, missing, _ = cov.analysis2(path)
    except Exception:
        continue
    executed[f] = set(stmts) - set(missing)

# ------------------------------------------------------------------ mutants
SWAP = {ast.Eq: ast.NotEq, ast.NotEq: ast.Eq, ast.Is: ast.IsNot, ast.IsNot: ast.Is, ast.In: ast.NotIn, ast.NotIn: ast.In,
        ast.Lt: ast.GtE, ast.GtE: ast.Lt, ast.Gt: ast.LtE, ast.LtE: ast.Gt}


def sites_of(func):
    out = []
    for node in ast.walk(func):
        ln = getattr(node, "lineno", None)
        if ln is None:
            continue
        if isinstance(node, (ast.If, ast.While, ast.IfExp)):
            out.append((ln, "negate-condition", node))
        if isinstance(node, ast.Compare) and len(node.ops) == 1 and type(node.ops[0]) in SWAP:
            out.append((ln, "swap-compare", node))
        if isinstance(node, ast.BoolOp):
            out.append((ln, "and-or", node))
        if isinstance(node, ast.Constant) and isinstance(node.value, bool):
            out.append((ln, "flip-bool", node))
        if isinstance(node, ast.Constant) and type(node.value) is int and node.value in (0, 1):
            out.append((ln, "zero-one", node))
        if isinstance(node, ast.UnaryOp) and isinstance(node.op, ast.Not):
            out.append((ln, "drop-not", node))
        if isinstance(node, ast.Call) and node.keywords:
            for k, kw in enumerate(node.keywords):
                if kw.arg is not None:
                    out.append((ln, "drop-keyword:%d" % k, node))
        if isinstance(node, ast.Return) and node.value is not None and not (isinstance(node.value, ast.Constant) and node.value.value is None):
            out.append((ln, "return-none", node))
        if isinstance(node, (ast.Expr, ast.AugAssign)) and not (isinstance(node, ast.Expr) and isinstance(node.value, ast.Constant)):
            out.append((ln, "delete-statement", node))
    return out


def apply(func, site_index, kind):
    f2 = copy.deepcopy(func)
    node = sites_of(f2)[site_index][2]
    if kind == "negate-condition":
        node.test = ast.UnaryOp(op=ast.Not(), operand=node.test)
    elif kind == "swap-compare":
        node.ops = [SWAP[type(node.ops[0])]()]
    elif kind == "and-or":
        node.op = ast.Or() if isinstance(node.op, ast.And) else ast.And()
    elif kind == "flip-bool":
        node.value = not node.value
    elif kind == "zero-one":
        node.value = 1 - node.value
    elif kind == "drop-not":
        # replace `not x` by `x` in the parent: emulate with double negation removal
        node.op = ast.UAdd()  # +x is x for bools in conditions (truthiness preserved)
        node.operand = ast.Call(func=ast.Name(id="bool", ctx=ast.Load()), args=[node.operand], keywords=[])
    elif kind.startswith("drop-keyword"):
        del node.keywords[int(kind.split(":")[1])]
    elif kind == "return-none":
        node.value = ast.Constant(value=None)
    elif kind == "delete-statement":
        # turn the statement into `pass` in place
        for parent in ast.walk(f2):
            for field in ("body", "orelse", "finalbody"):
                seq = getattr(parent, field, None)
                if isinstance(seq, list) and node in seq:
                    seq[seq.index(node)] = ast.Pass()
    ast.fix_missing_locations(f2)
    return f2


def mutants():
    rng = random.Random(SEED)
    cands = []
    for f, lines in executed.items():
        path = os.path.join(REPO, f)
        src = open(path).read()
        tree = ast.parse(src)
        funcs = []

        def walk(node, depth):
            for ch in ast.iter_child_nodes(node):
                if isinstance(ch, (ast.FunctionDef, ast.AsyncFunctionDef)):
                    funcs.append(ch)  # outermost functions / methods only
                elif isinstance(ch, ast.ClassDef):
                    walk(ch, depth + 1)

        walk(tree, 0)
        for fn in funcs:
            ss = sites_of(fn)
            for idx, (ln, kind, _) in enumerate(ss):
                if ln in lines:
                    cands.append((f, fn.name, fn.lineno, idx, kind, ln))
    only = arg("--only", "")
    if only:
        # --only <file-suffix>:<line>:<kind>   (run exactly these sites, e.g. mssql.py:151:and-or)
        want = [tuple(x.split(":", 2)) for x in only.split(",")]
        return [c for c in cands if any(c[0].endswith(w[0]) and str(c[5]) == w[1] and c[4] == w[2] for w in want)], len(cands)
    rng.shuffle(cands)
    # stratify by operator kind
    by = {}
    for c in cands:
        by.setdefault(c[4].split(":")[0], []).append(c)
    out = []
    while len(out) < N and any(by.values()):
        for k in sorted(by):
            if by[k] and len(out) < N:
                out.append(by[k].pop())
    return out, len(cands)


def render(f, fname, flineno, idx, kind):
    path = os.path.join(REPO, f)
    src = open(path).read()
    lines = src.splitlines(keepends=True)
    tree = ast.parse(src)
    target = None
    for node in ast.walk(tree):
        if isinstance(node, (ast.FunctionDef, ast.AsyncFunctionDef)) and node.name == fname and node.lineno == flineno:
            target = node
    start = min([target.lineno] + [d.lineno for d in target.decorator_list]) - 1
    end = target.end_lineno
    indent = " " * target.col_offset
    try:
        new = ast.unparse(apply(target, idx, kind))
    except Exception as e:
        return None
    new = "".join(indent + l + "\n" for l in new.splitlines())
    return "".join(lines[:start]) + new + "".join(lines[end:])


def sh(cmd, cwd=None, timeout=900, env=None):
    try:
        p = subprocess.run(cmd, shell=True, cwd=cwd, stdout=subprocess.PIPE, stderr=subprocess.STDOUT, timeout=timeout, env=env)
        return p.returncode, p.stdout.decode(errors="replace")
    except subprocess.TimeoutExpired:
        return 124, "timeout"


def work(args):
    wt, m = args
    f, fname, flineno, idx, kind, ln = m
    mutated = render(f, fname, flineno, idx, kind)
    res = {"file": f, "function": fname, "line": ln, "kind": kind}
    if mutated is None:
        res["status"] = "unrenderable"
        return res
    orig = open(os.path.join(REPO, f)).read()
    # the function is re-printed by ast.unparse: diff against the re-printed original so that only the mutation shows
    base = render_identity(f, fname, flineno)
    res["diff"] = "".join(difflib.unified_diff(base.splitlines(keepends=True), mutated.splitlines(keepends=True), f, f + " (mutant)", n=2))[:3000]
    if base == mutated:
        res["status"] = "no-op"
        return res
    target = os.path.join(wt, f)
    open(target, "w").write(mutated)
    try:
        rc, out = sh("PYTHONPATH=%s /venv/bin/python -c 'import alembic, alembic.command, alembic.autogenerate'" % wt, cwd=wt, timeout=60)
        if rc != 0:
            res["status"] = "does-not-import"
            return res
        rc, out = sh("PYTHONPATH=%s /venv/bin/python -m pytest -x -q -p no:cacheprovider -k 'not test_casing_convention_changed_so_put_drops_first' 2>&1 | tail -3" % wt, cwd=wt, timeout=600)
        if " failed" in out or "error" in out.lower() or rc == 124 or " passed" not in out:
            res["status"] = "killed-by-test-suite"
            return res
        env = dict(os.environ, VERIF_REPO=wt, VERIF_NO_ESCALATE="1", VERIF_SEED="0")
        rc, out = sh("./check %s --no-build 2>&1 | grep -E 'VIOLATION|^\\[C|infrastructure' | tail -4" % PROP, cwd=V, timeout=900, env=env)
        res["check"] = out.strip()[-600:]
        if "VIOLATION" in out and "no-failing-input-found" not in out:
            res["status"] = "caught-failing-input"
        elif "VIOLATION" in out:
            res["status"] = "caught-correspondence-only"
        elif "infrastructure" in out or rc == 124:
            res["status"] = "check-crashed-or-timed-out"
        else:
            res["status"] = "SURVIVED"
        return res
    finally:
        open(target, "w").write(orig)


def render_identity(f, fname, flineno):
    path = os.path.join(REPO, f)
    src = open(path).read()
    lines = src.splitlines(keepends=True)
    tree = ast.parse(src)
    for node in ast.walk(tree):
        if isinstance(node, (ast.FunctionDef, ast.AsyncFunctionDef)) and node.name == fname and node.lineno == flineno:
            start = min([node.lineno] + [d.lineno for d in node.decorator_list]) - 1
            indent = " " * node.col_offset
            new = "".join(indent + l + "\n" for l in ast.unparse(node).splitlines())
            return "".join(lines[:start]) + new + "".join(lines[node.end_lineno:])


def main():
    ms, total = mutants()
    print("%s: %d candidate sites on executed lines of %d anchored files; running %d mutants on %d workers" % (PROP, total, len(executed), len(ms), WORKERS), flush=True)
    base = tempfile.mkdtemp(prefix="verif_mut_")
    wts = []
    try:
        for k in range(WORKERS):
            wt = os.path.join(base, "w%d" % k)
            subprocess.run(["git", "-C", REPO, "worktree", "add", "--detach", wt, "HEAD"], stdout=subprocess.DEVNULL, stderr=subprocess.DEVNULL, check=True)
            wts.append(wt)
        results = []
        import queue

        q = queue.Queue()
        for wt in wts:
            q.put(wt)

        def run(m):
            wt = q.get()
            try:
                return work((wt, m))
            finally:
                q.put(wt)

        with ThreadPoolExecutor(max_workers=WORKERS) as ex:
            for r in ex.map(run, ms):
                results.append(r)
                print("  %-28s %s:%s %s %s" % (r["status"], r["file"].split("/")[-1], r["line"], r["function"], r["kind"]), flush=True)
    finally:
        for wt in wts:
            subprocess.run(["git", "-C", REPO, "worktree", "remove", "--force", wt], stdout=subprocess.DEVNULL, stderr=subprocess.DEVNULL)
        shutil.rmtree(base, ignore_errors=True)
        subprocess.run(["git", "-C", REPO, "worktree", "prune"])
    count = {}
    for r in results:
        count[r["status"]] = count.get(r["status"], 0) + 1
    os.makedirs(os.path.join(V, "mutants"), exist_ok=True)
    if arg("--only", ""):
        for r in results:
            print(json.dumps({k: v for k, v in r.items() if k != "diff"}))
        return
    json.dump({"property": PROP, "candidate_sites": total, "counts": count,
               "survivors": [r for r in results if r["status"] in ("SURVIVED", "caught-correspondence-only", "check-crashed-or-timed-out")],
               "all": [{k: v for k, v in r.items() if k != "diff"} for r in results]},
              open(os.path.join(V, "mutants", "%s.json" % PROP), "w"), indent=1)
    print(PROP, count)


main()
