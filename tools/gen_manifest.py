#!/usr/bin/env python3
"""Regenerates MANIFEST.json from the table below (single source of truth for what is claimed)."""
import json, os

VERIF = os.path.dirname(os.path.dirname(os.path.abspath(__file__)))
BASELINE = "cd /repo && /venv/bin/python -m pytest -ra -q -p no:cacheprovider --timeout=900 --continue-on-collection-errors"

GENERIC_NOTE = (
    "Trusted: Lean 4.33 kernel (axioms propext/Classical.choice/Quot.sound only, audited each run; no sorry, "
    "no native_decide); the hand-written Lean model is tied to /repo by a behavioural correspondence check on "
    "generated inputs (sampling residual); harness adapters/canonicalisers. "
)

CLAIMED = {
    "C18": dict(
        engine="txn",
        text="Lean theorems over Model.Txn.runToks (mirror of begin_transaction/autocommit_block/run_migrations in --sql mode) "
        "prove the framing grammar for every number of migrations, every body, every (transactional_ddl, per_migration) setting; "
        "the model is compared token-for-token with the real MigrationContext on 5 dialects and the Lean recogniser is run on "
        "the implementation's own output.",
        ref="6/C18",
        note="version-statement counts and createVT/dropVT flags are parameters read from the implementation run; tokeniser of the output buffer is trusted.",
        technique="Lean 4 proof by structural induction over migrations/segments + model-vs-implementation correspondence (differential) + Lean spec recogniser as oracle",
    ),
}

NOT_YET = {}

def main():
    props = [json.loads(l) for l in open(os.path.join(VERIF, "properties.jsonl"))]
    checks = []
    na = []
    for p in props:
        pid = p["id"]
        if pid in CLAIMED:
            c = CLAIMED[pid]
            checks.append({
                "property_id": pid,
                "quick_cmd": "./check %s --tier quick" % pid,
                "thorough_cmd": "./check %s --tier thorough" % pid,
                "evidence_file": "evidence/%s.json" % pid,
                "replay_cmd_template": "./check %s --replay {path}" % pid,
                "engine": c["engine"],
                "level_claimed": {"category": "proof", "text": c["text"], "design_ref": c["ref"]},
                "level_note": GENERIC_NOTE + c["note"],
                "technique": c["technique"],
            })
        else:
            na.append({"property_id": pid, "reason": NOT_YET.get(pid, "machinery for this property is not built yet (work in progress; design in DESIGN.md section 6); not claimed until its Lean theorems and correspondence check exist")})
    man = {
        "version": 1,
        "setup_cmd": "cd lean && lake build",
        "hooks": {
            "guard": "ALEMBIC_VERIF",
            "enable": "no source hooks: checks import alembic from /repo's working tree (development install in /venv) and use public APIs / in-process wrapping",
            "baseline_off_cmd": BASELINE,
            "source_commits": [],
            "add_only": True,
        },
        "engines": [
            {"name": "txn", "path": "lean/Model/Txn", "serves_properties": ["C18", "C04"], "kind_free_text": "Lean model of transaction framing + proofs"},
        ],
        "checks": checks,
        "not_applicable": na,
        "notes": "Single entry point ./check Cxx [--tier quick|thorough] [--replay path]; Lean project in lean/ (lake build), harness in harness/. See DESIGN.md.",
    }
    json.dump(man, open(os.path.join(VERIF, "MANIFEST.json"), "w"), indent=1)
    print("claimed:", [c["property_id"] for c in checks])

main()
