#!/usr/bin/env python3
"""Regenerates MANIFEST.json from the table below (single source of truth for what is claimed)."""
import json, os

VERIF = os.path.dirname(os.path.dirname(os.path.abspath(__file__)))
BASELINE = "cd /repo && /venv/bin/python -m pytest -ra -q -p no:cacheprovider --timeout=900 --continue-on-collection-errors"

GENERIC_NOTE = (
    "Trusted: Lean 4.33 kernel (axioms propext/Classical.choice/Quot.sound only, audited each run; no sorry, "
    "no native_decide); the hand-written Lean model is tied to /repo by a behavioural correspondence check on "
    "generated inputs (sampling residual); harness adapters/canonicalisers. "
)

T_GENERIC = "Lean 4 proof (structural induction / invariants / case analysis) + model-vs-implementation correspondence (differential, real code in-process) + Lean spec checker as oracle on the implementation's output; #print axioms audit on every run, leanchecker re-check of the compiled property module in the thorough tier"

CLAIMED = {
    "C01": dict(engine="rev", ref="6/C01",
        text="C01.plan: for every history that loads (unique ids, existing down-revisions), every version-table content and every target string, whenever upgrade produces a plan it contains exactly the revisions the resolved targets require (down-revisions and dependencies, transitively) and the current rows do not imply, each once, every revision after all of its down-revisions and dependencies. Built on a complete proof of RevisionMap._topological_sort (loop invariants incl. the in-place ancestor-set shortcut, termination measure, fuel bound: the sort never asserts and never loops on an acyclic map), closure = reachability for _iterate_related_revisions, and norm_closure (normalized edges lose nothing). Model compared plan-for-plan with the real ScriptDirectory._upgrade_revs on every DAG with <=3 (thorough 4) revisions x every antichain state x every target form and on random DAGs driven by command sequences.",
        note="the theorem is stated over the loaded map's graph (m.allDownOf: down revisions + dependencies as the code resolves them); target resolution is C16's; Python set iteration order of normalized dependencies is read from the implementation and checked to be a permutation.",
        technique=T_GENERIC),
    "C02": dict(engine="rev", ref="6/C02",
        text="C02.plan: whenever downgrade produces a plan it is exactly the applied revisions that build on the roots (the target's down-revision children / all revisions without down-revision for base, narrowed to the named branch), each once, no revision before an applied revision that needs it; an empty plan is only returned when the target is a current row (otherwise RangeNotAncestorError); C02.target_safe: the target and its prerequisites are never in the plan. Same _topological_sort proof as C01 (convexity and coverage of desc*(roots) ∩ applied proved). Model compared plan-for-plan with the real _downgrade_revs; Lean checkers downgradeOk/mustRefuse judge the implementation's plans. Also plan_history (the same in terms of the links written in the files) and downgradeOk_sound.",
        note="as C01; the deprecated '-N from several heads' form depends on the row order of the SELECT, which is an explicit input.",
        technique=T_GENERIC),
    "C03": dict(engine="rev", ref="6/C03",
        text="C03.step / upgrade_run / downgrade_run: from a table consistent with the applied set (rows = the applied revisions no applied revision needs, no duplicates), recording any step of a plan Alembic produced (C01.UpgradePlan / C02.DowngradePlan) succeeds - every INSERT/UPDATE/DELETE hits exactly one row - and the table is consistent again after EVERY step, for every loaded history incl. merge points with redundant parents (the class of the repaired defects F2/F3); C03.init + induction over command sequences covers every state reachable from the empty table; all_applied_rows / none_applied_rows give the heads / empty-table corollaries. Compared step by step with the real HeadMaintainer on a live SQLite alembic_version table. Also rows_history, rowsOk_sound, traceOk_sound.",
        note="as C01; version_table name/schema/pk settings do not enter the bookkeeping logic: they are exercised by running every command on a fresh MigrationContext that reads the heads back from the table (harness/rev_ctx.py); rows are assumed to resolve to themselves (full ids).",
        technique=T_GENERIC),
    "C04": dict(engine="online", ref="6/C04",
        text="Lean theorems over Model.Online.runFinal (begin_transaction decision tree, _ProxyTransaction.__exit__, per-step block of run_migrations, autocommit_block) for every plan length, every failing migration and every failure position, all (transactional_ddl, transaction_per_migration, external) settings: single_txn, per_migration, recorded_exactly_completed, nontransactional, rows_at_boundary, never_names_failed. Compared with the real MigrationContext on SQLite file databases (pysqlite default and the BEGIN recipe) with exhaustive failure positions; the Lean checker judges the post-failure observation of the real code. Rounds on one connection: run_leaves_no_txn, round_failure_eq_standalone, rounds_independent (per-migration regime, each round with at least one migration), round_without_migrations_leaves_txn (kernel-checked witness of finding C04-F2), read_noop (a migration reading the current heads changes nothing).",
        note="backend DDL modes are a model (pysqlite legacy and SQLite BEGIN recipe validated live; PostgreSQL/MSSQL/MySQL servers not); single_txn/per_migration carry the hypothesis 'no autocommit_block before the failure'; version statements are parameters read from the real HeadMaintainer (row algebra is C03); migration bodies may contain op.batch_alter_table blocks; an offline (--sql) stream injects the same failures, reports a failure the command swallowed and applies the script emitted up to the failure to a copy of the start database, judged by the same Spec.Online.check (no Lean model run for offline cases: framing is C18's).",
        technique=T_GENERIC),
    "C05": dict(engine="rev", ref="6/C05",
        text="C05.single: from rows that form an antichain, stamping a revision d replaces exactly the rows in d's lineage (ancestors or descendants through down-revisions and dependencies, selected as filter_for_lineage(include_dependencies=True) does) by d, leaves every other row untouched, every statement hits exactly one row, and the result is again an antichain - for every loaded history and all four classifications (no-op / downgrade / upgrade / new branch) of _stamp_revs with the StampStep decision logic; C05.base: stamping base deletes the selected rows one by one and ends empty. Several destinations ('heads', several ids; repaired in /repo by the F4 fix) are covered by correspondence with the real _stamp_revs + HeadMaintainer on SQLite and the Lean oracle stampOk. Also C05.several (the loop of _stamp_revs over pairwise unrelated destinations, the repaired F4/F15), stamp_one, stamp_several, stamp_heads (+ stamp_heads_history: exactly the revisions no file names as a prerequisite), stamp_base, lineage_history, stampOk_sound.",
        note="stamp_one / stamp_several / stamp_heads / stamp_base are end-to-end about command.stamp for destinations written as full ids, 'heads', 'base' and (C05.stamp_branch_head) `<label or id>@head` with one head on the branch; bare label / partial-id / label@heads destinations and --purge are compared (in-process and through the shipped env.py on a SQLite file) and judged by the oracle stampOk, whose verdict is given its meaning by stampOk_sound; destinations that share a lineage or name one revision twice are outside the formula.",
        technique=T_GENERIC),
    "C06": dict(engine="diff", ref="6/C06",
        text="quiet_partial and converge_partial kernel-checked for all well-formed schemas of the property's class (any size, arbitrary type arguments and default texts) under every compare_type/compare_server_default setting, with the SchemaOk hypothesis (plain defaults, types that reflect by name); the F9 family, affinity-reflected types and two batch defects are Lean counterexamples + known findings replayed on the real code. The property itself (quiet, converge through rendered code executed on SQLite) is observed on the real code on every run.",
        note="Model.Diff.{ddlTy,reflTy,sqliteStore,createAll,reflect,apply} are tables/semantics of SQLAlchemy and SQLite validated against the live inspector and database on every run; as_diffs canonicaliser.",
        technique=T_GENERIC),
    "C07": dict(engine="diff", ref="6/C07",
        text="detect_partial kernel-checked for all 15 documented change kinds, every schema in the class and every applicable mutation: the diff contains the op of the mutation's kind on its object and nothing that touches an unrelated object; type_family_detected, default_change_detected. Lean detectOk judges the implementation's as_diffs() for random base x every applicable mutation.",
        note="as C06 (same model); SchemaOk hypothesis; F9-family counterexample.",
        technique=T_GENERIC),
    "C08": dict(engine="render", ref="6/C08",
        text="Py.repr_roundtrip (CPython repr(str) model parses back to the string, all strings), C08.parse_pp (printer/parser round trip for all well-formed call ASTs), C08.render_wf and C08.syntax: the text every modelled renderer emits parses and denotes the intended call for all names; rendered text compared character by character with the model; the property itself (exec of rendered code vs invoke(op), SQL on 5 dialects) is observed on the real code on every run, its remaining failures classified into recorded known findings.",
        note="type repr and SQLAlchemy DDL compilation are opaque in the model (oracle only); the evaluation half (evalCall) is not a theorem; str.isprintable is a parameter of pyRepr.",
        technique=T_GENERIC),
    "C09": dict(engine="filter", ref="6/C09",
        text="reverse_order proved for every op tree (mutual structural induction over nested ModifyTableOps); involution and undo proved in _partial form (clean / accurate ops) next to three kernel-checked counterexamples (F11 modify_name, F13 if_exists directives, F14 deferrable=False) recorded as known findings; model compared with op.reverse()/reverse().reverse() of the real ops, SQL on five dialects, and upgrade-then-downgrade executed on SQLite.",
        note="abstract schema semantics of ops is mine (validated by SQLite execution only); canonicalisation through to_table/to_index/to_constraint; C09.reverse_shape (the reverse has the inverse kind, names the same object and, for a constraint, carries the same constraint type) is evaluated as Spec.Reverse.undoesShape on the implementation's own reverse(); DDL undo oracle: where a create-like op emits offline on a dialect its reverse must too.",
        technique=T_GENERIC),
    "C10": dict(engine="batch", ref="6/C10",
        text="Lean theorems over the ApplyBatchImpl mirror: rows, rowcount, no_tmp, values (every untouched column keeps its cell values), order_perm/order_respects (column ordering is a permutation and a linear extension), kept_indexes, for every table, row list and op sequence; constraint carry-over is decided by correspondence on real SQLite + the Lean checker check10. Two counterexample theorems (C10-F1, C10-F2) are known findings.",
        note="abstract SQLite semantics (CAST table computed by the harness from live SQLite; Spec.Batch.allowedValues demands the CAST result, storage class included, when a retype crosses type families); SQLAlchemy reflection/copy; C10.schema for untouched named constraints/FK/PK is checked by correspondence and the spec checker, not proved.",
        technique=T_GENERIC),
    "C11": dict(engine="batch", ref="6/C11",
        text="Lean theorems over _create's try/except/else on an abstract pysqlite connection for every plan, every fault index and both ways the enclosing scope can end: early_orig_intact, retrievable, late, superset, success_no_tmp; 'temp table gone after an early failure' only as _partial next to two kernel-checked counterexamples (C11-F1, C11-F2: known findings). Fault injection at every statement on real SQLite.",
        note="pysqlite implicit-transaction semantics are modelled and validated live on SQLite only.",
        technique=T_GENERIC + " + exhaustive fault injection through before_cursor_execute"),
    "C12": dict(engine="offline", ref="6/C12",
        text="Proved for all inputs: literal round trip (NULL, ints, arbitrary strings), statement splitting recovers exactly the emitted statements, closedness of every rendered statement, lexer round trip, version-table statements read back; same_effect proved in _partial form (decidable hypotheses evaluated by the driver on every case) with a kernel-checked counterexample for the TAB defect. same_effect_upgrade_plan / same_effect_downgrade_plan: for every loaded history (branches, merges, several roots, dependencies) and every plan Alembic computes, with the version operations of the bookkeeping model (C03) along it, the head-set hypothesis midOk is derived from C03's invariant, so only the bodies remain parameters. The property itself is observed on the real code on every run (online vs offline script executed on SQLite).",
        note="SQLite executor; SQLAlchemy compilation and exotic literal rendering (floats, Decimal, dates) are covered by the implementation-side oracle only; readsBack for body statements is a decidable hypothesis, not proved.",
        technique=T_GENERIC),
    "C13": dict(engine="alter", ref="6/C13",
        text="exact_<dialect> for default, sqlite, postgresql, mysql, mariadb, mssql, oracle: for every request (all presence patterns, values universally quantified) with plain/None defaults and every initial column agreeing with the stated existing_* values, the emitted statements set each requested attribute and keep every other one unless restated-and-unstated; computed/identity raise theorems; schema_partial. Exhaustive presence-pattern correspondence (28 672 patterns) against real as_sql output. Three counterexamples are known findings (Oracle comment schema, PG identity, constraint after rename).",
        note="applyStmt encodes documented vendor semantics for mysql/mssql/postgresql/oracle (no live servers); per-dialect statement parsers trusted (they un-quote delimited identifiers and read inside the T-SQL literals of the MSSQL drop-default batch: Stmt.mssqlDropDefault carries the table its object_id literal denotes and the column string); quoting-class column names are run as a names battery; quoting as such is C14.",
        technique=T_GENERIC),
    "C14": dict(engine="ident", ref="6/C14",
        text="Lexer round trip of delimiters and quote doubling for every dialect and every name (delimit_roundtrip, literal_roundtrip), needs_quotes, and per-construct token-shape theorems for 12 construct families x dialects with names universally quantified; F6/F7 (and PERCENT/TAB outside the listed classes) as counterexample + partial theorems and known findings. Real compiled strings compared exactly with the model on 6 dialects; the Lean lexer-based spec judges the implementation's strings.",
        note="the lexer/shapes describe the databases' grammars; SQLAlchemy-rendered type/default texts opaque; reserved words read from the live dialect; MSSQL sp_rename(table)/_ExecDrop* and MySQL DROP CONSTRAINT are modelled and compared but have no positive theorem; the _exec strip/TAB step is covered by correspondence only.",
        technique=T_GENERIC),
    "C15": dict(engine="rev", ref="6/C15",
        text="cyclic_rejected: whatever loads has no directed cycle among its down-revision and dependency links (any set of revisions each linking into the set survives every pass of _revisions_in_cycles, so _detect_cycles raises); acyclic_accepted / acyclic_loads: a well-formed history whose links admit a rank function passes all six checks of _detect_cycles (every revision lies between a head and a base; the peeling ends empty within n passes); heads_bases: reported heads/real heads/bases/real bases are exactly the revisions nobody's down-revision / nobody links to / without down-revision / without links; traversals return the full reachable set within their fuel (closure_total; the sort: C01/C02). The defect F1 (reachability-only check) is repaired in /repo and the model mirrors the repaired code. Every digraph on <=3 revisions (thorough 4) is loaded through the real RevisionMap and compared. Also no_cycle_acyclic (on a finite graph 'no directed cycle' = 'admits a rank function'), no_cycle_accepted, heads_bases_history, and hasCycle_iff: the oracle decides 'directed cycle' on the history as written. The lazily loaded RevisionMap as a state machine (Model/Rev/Memo.lean): C15.cyclic_refused_every_read - on one object every read of _revision_map / heads / bases / _real_heads / _real_bases raises when the links contain a cycle, not only the first - compared read by read with one real object (rev.memo), the ScriptDirectory accessors probed after a refusal.",
        note="links are down-revisions plus dependencies as the code resolves them (ids first, then branch labels); duplicate revision ids are C19's business.",
        technique=T_GENERIC),
    "C16": dict(engine="rev", ref="6/C16",
        text="full_id (a full revision id resolves to that revision), plain_sound (a plain identifier resolves to a revision only if it is a key of the map for it - its id or a label it carries - or a prefix of its id and of no other id of >=4 characters), prefix_unique_partial (the documented unique-prefix rule when all ids have >=4 characters) next to the kernel-checked counterexample for shorter ids (known finding F13), symbolic_heads/base; the label-prefix defect F10 is repaired in /repo. Every prefix of every id and label, every label@x combination and offsets up to 3 are resolved through the real RevisionMap and compared with the model; relative and branch-qualified results are judged by Lean oracles (exact distance, branch membership, documented meaning of head/heads/base). Also walk_up_exact / walk_down_exact and walk_up_history / walk_down_history (a relative walk that returns a revision returns one exactly N down_revision links, as written in the files, away), stepsDown_iff, load_ids_legal.",
        note="relative and branch-qualified targets end to end: C16.rel_up_id / rel_up_row / rel_up_empty / rel_up_empty_label / rel_down_id / rel_dgrade_id / rel_dgrade_row (rev+N, +N from the single row, rev-N, bare -N: exactly N down_revision links as written in the files, base only at distance N-1 from a root, -N restricted to the row's branch) and C16.branch_head / branch_head_ambiguous / branch_heads (<label or id>@head = the single head sharing the branch's lineage, several are refused; <label or id>@heads = exactly the heads sharing it) for every target the pattern model matchRelative splits that way; label@+N / label@-N (start at the branch tip: Spec.Rev.relUpStarts), +N with several rows and the regular expression itself are compared and judged by oracles only; get_revisions('-N') is modelled for the plain ASCII spelling of the number.",
        technique=T_GENERIC),
    "C17": dict(engine="gen", ref="6/C17",
        text="repr_roundtrip / repr_file (the four identifier assignments of script.py.mako decode to the requested values for ALL strings and tuples), incremental (for every well-formed history that loads and every accepted new revision, add_revision succeeds, the extended history loads, and the incrementally updated map equals the reloaded map in the FULL view incl. branch labels - the label defect F5 is repaired in /repo), filename_suffix/accepted; counterexamples for the unescaped docstring (F12) and a '.#' id are kernel-checked and recorded. After every real generate_revision/command.revision/command.merge call the incremental ScriptDirectory is compared with a fresh one and with the model. Since the repair of C17-F17 the files of the directory are model state (DirState / stepCallF): C17.generate_refuses_taken_file and the sequence invariant C17.runCallsF_files - along every sequence of calls no accepted call replaces a file, paths stay pairwise distinct; the harness hands the model the files present and each call's path built from the model's own file name.",
        note="Mako substitution is literal; Python tokenizer/importer and filesystem exercised live; \\w and str.lower() are parameters; version_path / file_template handling is covered by correspondence; whether the rendered text fits the configured output_encoding is a parameter (GenArgs.encodable, computed with str.encode) - C17.generate_refuses_unencodable: such a call is refused before anything is written; sourceless directories are also run with the byte code Python caches next to the sources.",
        technique=T_GENERIC),
    "C18": dict(engine="txn", ref="6/C18",
        text="Lean theorems over Model.Txn.runToks (mirror of begin_transaction/autocommit_block/run_migrations in --sql mode) prove the framing grammar for every number of migrations, every body, every (transactional_ddl, per_migration) setting; the model is compared token-for-token with the real MigrationContext on 5 dialects and the Lean recogniser is run on the implementation's own output.",
        note="version-statement counts and createVT/dropVT flags are parameters read from the implementation run; which dialects have transactional DDL (postgresql, mssql; an explicit transactional_ddl= of the same configure() call overrides) is specification data of the harness, not read from the implementation; also run: the multidb shape (2-3 configure() calls on one EnvironmentContext, mixed dialects) and the override key present with value None; the leak of an explicit earlier override into a later call is known finding C18-F1 (= C04-F1); tokeniser of the output buffer is trusted.",
        technique=T_GENERIC),
    "C19": dict(engine="files", ref="6/C19",
        text="For every abstract filesystem, every list of version-location trees and every sourceless/recursive setting: loaded_once, loaded_sound, ids_right, dup_id (iff), error_loud, map_keys, split; completeness (every expected file is loaded) in _partial form with a kernel-checked counterexample (__init__-prefixed file names: known finding C19-F13) and in full for the repaired look-ahead. Real ScriptDirectory.from_config on materialised scratch trees compared with the model.",
        note="os.walk/realpath/importlib are the platform's; a file is judged by its realpath name; RootsOk (no version location itself named __pycache__) assumed; C19.name_rule / isRevFile_name: the file-name regex accepts exactly Spec.Files.isRevName (every .py - sourceless also .pyc/.pyo - name that is neither a .# lock file nor the module __init__), and the real regexes are judged against it name by name.",
        technique=T_GENERIC),
    "C20": dict(engine="filter", ref="6/C20",
        text="Lean theorems over Model.Filter.diffF (compare.py skeleton with every run_name_filters/run_object_filters call site) for all schema pairs and all predicates: object (no leak), name (no leak), conservative_object (list equality), conservative_name (when no reflected name is rejected). Compared with real produce_migrations on SQLite under real callables; Lean checkers on the implementation's ops.",
        note="'targets' reading fixed in DESIGN 6/C20; doubled_constraints path and comments not modelled; per-table name-conservativeness is a checker evaluated on implementation output, not a theorem.",
        technique=T_GENERIC),
}

ENGINES = [
    ("txn", "lean/Model/Txn", ["C18"], "offline transaction framing: model, spec recogniser, proofs"),
    ("online", "lean/Model/Online", ["C04"], "online transactions under failure: model generic in state, proofs"),
    ("alter", "lean/Model/Alter", ["C13"], "alter_column per dialect: model, vendor semantics, proofs"),
    ("ident", "lean/Model/Ident", ["C14"], "identifier quoting + Alembic's own DDL constructs + lexer spec"),
    ("files", "lean/Model/Files", ["C19"], "revision file discovery over an abstract filesystem"),
    ("filter", "lean/Model/Filter + lean/Model/Reverse", ["C20", "C09"], "autogenerate filters; op reversal"),
    ("batch", "lean/Model/Batch", ["C10", "C11"], "batch move-and-copy state machine, SQLite semantics"),
    ("offline", "lean/Model/Offline", ["C12"], "offline script vs online run on an abstract SQLite"),
    ("gen", "lean/Model/Gen", ["C17"], "revision file generation and incremental map update"),
    ("rev", "lean/Model/Rev", ["C01", "C02", "C03", "C05", "C15", "C16"], "revision DAG, plans, version-table bookkeeping"),
    ("diff", "lean/Model/Diff", ["C06", "C07"], "autogenerate diff on SQLite"),
    ("render", "lean/Model/Render + lean/Model/Py", ["C08"], "rendering of ops to Python source"),
]
DRIVERS = {"txn": "drv_txn", "online": "drv_online", "alter": "drv_alter", "ident": "drv_ident", "files": "drv_files",
           "filter": "drv_filter", "batch": "drv_batch", "offline": "drv_offline", "rev": "drv_rev", "gen": "drv_gen", "diff": "drv_diff", "render": "drv_render"}

NOT_YET = {}

def main():
    props = [json.loads(l) for l in open(os.path.join(VERIF, "properties.jsonl"))]
    checks = []
    na = []
    for p in props:
        pid = p["id"]
        if pid in CLAIMED:
            c = CLAIMED[pid]
            checks.append({
                "property_id": pid,
                "quick_cmd": "./check %s --tier quick" % pid,
                "thorough_cmd": "./check %s --tier thorough" % pid,
                "evidence_file": "evidence/%s.json" % pid,
                "replay_cmd_template": "./check %s --replay {path}" % pid,
                "engine": c["engine"],
                "level_claimed": {"category": "proof", "text": c["text"], "design_ref": c["ref"]},
                "level_note": GENERIC_NOTE + c["note"],
                "technique": c["technique"],
            })
        else:
            na.append({"property_id": pid, "reason": NOT_YET.get(pid, "machinery for this property is not built yet (work in progress; design in DESIGN.md section 6); not claimed until its Lean theorems and correspondence check exist")})
    man = {
        "version": 1,
        "setup_cmd": "cd lean && lake build " + " ".join(sorted(set(["Props.%s" % c["property_id"] for c in checks] + [DRIVERS[CLAIMED[c["property_id"]]["engine"]] for c in checks]))),
        "hooks": {
            "guard": "ALEMBIC_VERIF",
            "enable": "no source hooks: checks import alembic from /repo's working tree (development install in /venv) and use public APIs / in-process wrapping",
            "baseline_off_cmd": BASELINE,
            "source_commits": [],
            "add_only": True,
        },
        "engines": [{"name": n, "path": p, "serves_properties": sp, "kind_free_text": k} for n, p, sp, k in ENGINES],
        "checks": checks,
        "not_applicable": na,
        "notes": "Single entry point ./check Cxx [--tier quick|thorough] [--replay path]; Lean project in lean/ (lake build), harness in harness/. See DESIGN.md.",
    }
    json.dump(man, open(os.path.join(VERIF, "MANIFEST.json"), "w"), indent=1)
    print("claimed:", [c["property_id"] for c in checks])

main()
