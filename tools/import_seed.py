#!/usr/bin/env python3
"""tools/import_seed.py <seed-workdir> <seeded-id> [--tier quick|thorough]

<seed-workdir> is what an independent sub-agent produced: wt/ (worktree of /repo with its patch
applied) and out/{patch.diff,demo.py,meta.json}.  Confirms the regression (demo passes on /repo,
fails on the patched worktree; the test suite result on the patched worktree equals the baseline;
the worktree diff equals patch.diff), runs our check against the patched worktree, and stores
everything under /verif/seeded/<seeded-id>/ with the results in meta.json.
"""
import json, os, re, shutil, subprocess, sys

V = os.path.dirname(os.path.dirname(os.path.abspath(__file__)))


def sh(cmd, **kw):
    p = subprocess.run(cmd, shell=True, stdout=subprocess.PIPE, stderr=subprocess.STDOUT, **kw)
    return p.returncode, p.stdout.decode(errors="replace")


def main():
    d, sid = sys.argv[1], sys.argv[2]
    tier = sys.argv[4] if len(sys.argv) > 4 and sys.argv[3] == "--tier" else "quick"
    prop = sid.split("-")[0]
    wt, out = d + "/wt", d + "/out"
    res = {}
    rc, diff = sh("git -C %s diff" % wt)
    res["worktree_diff_equals_patch"] = diff.strip() == open(out + "/patch.diff").read().strip()
    rc, _ = sh("PYTHONDONTWRITEBYTECODE=1 PYTHONPATH=/repo /venv/bin/python %s/demo.py" % out)
    res["demo_on_unmodified_repo_exit"] = rc
    rc, _ = sh("PYTHONPATH=%s /venv/bin/python %s/demo.py" % (wt, out))
    res["demo_on_patched_exit"] = rc
    rc, o = sh("cd %s && PYTHONPATH=%s timeout 1500 /venv/bin/python -m pytest -q -p no:cacheprovider 2>&1 | tail -1" % (wt, wt))
    res["test_suite_on_patched"] = o.strip().strip("= ")
    rc, o = sh("cd %s && VERIF_REPO=%s timeout 3000 ./check %s --tier %s" % (V, wt, prop, tier))
    lines = [l for l in o.splitlines() if re.match(r"VIOLATION|\[C|infrastructure|KNOWN", l)]
    viol = [l for l in lines if l.startswith("VIOLATION")]
    res["check_exit"] = rc
    res["check_lines"] = [l[:220] for l in lines if not l.startswith("KNOWN")]
    if rc == 0:
        det, how = "MISSED (%s tier)" % tier, "check exit 0"
    elif viol and all("no-failing-input-found" in l for l in viol):
        det, how = "%s, correspondence only" % tier, "VIOLATION ... no-failing-input-found"
    elif viol:
        det, how = tier, "failing-input"
    else:
        det, how = "infrastructure problem", "exit %s" % rc
    try:
        meta = json.load(open(out + "/meta.json"))
    except Exception:
        meta = {"raw_meta": open(out + "/meta.json").read()}
    dst = os.path.join(V, "seeded", sid)
    os.makedirs(dst, exist_ok=True)
    keep = {}
    if os.path.exists(dst + "/meta.json"):
        try:
            old = json.load(open(dst + "/meta.json"))
            keep = {k: old[k] for k in ("first_result", "notes") if old.get(k)}
        except Exception:
            pass
    shutil.copy(out + "/patch.diff", dst + "/patch.diff")
    shutil.copy(out + "/demo.py", dst + "/demo.py")
    meta = {"property": prop, "author": "independent sub-agent given only the property text (and what an earlier seed did) and a scratch worktree",
            **meta, "confirmed_by_lead": res, "detected_by_check": det, "how_reported": how, "notes": "", **keep}
    json.dump(meta, open(dst + "/meta.json", "w"), indent=1)
    print(sid, "| demo /repo:", res["demo_on_unmodified_repo_exit"], "patched:", res["demo_on_patched_exit"], "|", res["test_suite_on_patched"][:60],
          "| diff==patch:", res["worktree_diff_equals_patch"], "| check:", det, "|", how)
    for l in res["check_lines"][-3:]:
        print("   ", l[:200])


main()
