#!/bin/bash
# tools/eval_all_seeds.sh [parallelism]  -- re-runs today's quick check against every kept seeded regression
# (throw-away worktrees, alembic's own suite skipped) and writes seeded/REGRESSION.txt: one line per seed.
cd /verif
P=${1:-5}
ls seeded | grep -E '^C[0-9]+-[a-z]$' | SKIP_TESTS=1 xargs -P $P -I{} sh -c 'tools/eval_seed.sh {} 2>&1 | awk -v id={} "/demo on \\/repo/{a=\$NF} /demo on patched/{b=\$NF} /^VIOLATION/{v++; if (\$0 ~ /no-failing-input-found/) n++} /check exit/{e=\$NF} END{printf \"%s demo=%s/%s check_exit=%s violations=%d correspondence_only=%d\\n\", id, a, b, e, v, n}"' | sort > seeded/REGRESSION.txt
cat seeded/REGRESSION.txt | awk '{print $3, ($4=="violations=0")?"none":(($5=="correspondence_only=0")?"failing-input":"mixed/corr")}' | sort | uniq -c
